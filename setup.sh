#!/bin/sh
# Offline setup after a fresh restore: contracts library beside the repo's interpreter + native perf helper.
cd "$(dirname "$0")" || exit 1
mkdir -p .deps evidence
/venv/bin/python -m pip install -q --no-index --find-links /opt/veriftools/wheels --target .deps icontract >/dev/null 2>&1 || echo "icontract not installed (checks degrade to hand-written wrappers)"
clang -O2 -shared -fPIC -o .deps/arenacache.so native/arenacache.c || echo "arenacache not built (checks run slower)"
exit 0
