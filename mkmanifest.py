#!/usr/bin/env python3
"""Regenerates MANIFEST.json from the table below (kept in one place so it stays valid)."""
import json
import os

HERE = os.path.dirname(os.path.abspath(__file__))
ALL = [f'C{i:02d}' for i in range(1, 21)]

CHECKS = {}   # filled by register()


def register(pid, category, text, note, technique, design_ref):
    CHECKS[pid] = dict(category=category, text=text, note=note, technique=technique, design_ref=design_ref)


exec(open(os.path.join(HERE, 'manifest_table.py')).read())

checks = []
for pid in ALL:
    if pid not in CHECKS:
        continue
    c = CHECKS[pid]
    checks.append({
        'property_id': pid,
        'quick_cmd': f'./check {pid} --tier quick',
        'thorough_cmd': f'./check {pid} --tier thorough',
        'evidence_file': f'/verif/evidence/{pid}.json',
        'replay_cmd_template': f'./check {pid} --replay {{path}}',
        'engine': 'qv',
        'level_claimed': {'category': c['category'], 'text': c['text'], 'design_ref': c['design_ref']},
        'level_note': c['note'],
        'technique': c['technique'],
    })
na = [{'property_id': p, 'reason': NOT_APPLICABLE.get(p, 'check not built yet (work in progress); will be claimed once its monitor exists')}
      for p in ALL if p not in CHECKS]
m = {
    'version': 1,
    'setup_cmd': './setup.sh',
    'hooks': {
        'guard': 'QBEE_VERIF',
        'enable': 'no source hooks: all instrumentation is applied from the harness (subclassed QvmCpu, class-level wrappers on device handlers, recording peripherals object); QBEE_VERIF is reserved and unused',
        'baseline_off_cmd': 'cd /repo && /venv/bin/python -m pytest -q -p no:cacheprovider --timeout=900',
        'source_commits': [],
        'add_only': True,
    },
    'engines': [{'name': 'qv', 'path': '/verif/qv', 'serves_properties': sorted(CHECKS),
                 'kind_free_text': 'runtime monitoring: real compiler/VM/debugger from /repo driven by generated and enumerated workloads in worker subprocesses, observed through a recording peripherals object, device-handler hooks and a monitored CPU; oracles are differential comparators, a reference interpreter and structural checkers'}],
    'checks': checks,
    'not_applicable': na,
    'notes': 'Exit codes: 0 held on what was observed, 1 violation (VIOLATION line + replay file), 2 inconclusive (INCONCLUSIVE line, never a VIOLATION line). Known findings are listed in known_findings.json.',
}
with open(os.path.join(HERE, 'MANIFEST.json'), 'w') as f:
    json.dump(m, f, indent=1)
print('checks:', [c['property_id'] for c in checks], 'n/a:', [x['property_id'] for x in na])
