#!/bin/sh
# usage: tools/confirm_breaker.sh <worktree> <patch> <demo.py>  -> prints CONFIRM line
wt=$1; patch=$2; demo=$3
cd "$wt" || exit 2
git checkout -q -- qbee qvm tests 2>/dev/null
/venv/bin/python "$demo" >/dev/null 2>&1; clean=$?
git apply "$patch" || { echo "CONFIRM $patch APPLY-FAILED"; exit 1; }
/venv/bin/python "$demo" >/dev/null 2>&1; broken=$?
t=$(timeout 2400 /venv/bin/python -m pytest -q -p no:cacheprovider -x 2>&1 | tail -1)
git checkout -q -- qbee qvm
echo "CONFIRM $(basename $(dirname $patch))/$(basename $patch) demo_clean=$clean demo_patched=$broken tests: $t"
