#!/bin/sh
# usage: tools/breaker_eval.sh <worktree> <patch> <check ids...>
# Applies the patch in the scratch worktree, runs the checks' quick tier against it (QV_REPO), reverts.
wt=$1; patch=$2; shift 2
git -C "$wt" checkout -q -- qbee qvm 2>/dev/null
git -C "$wt" apply "$patch" || { echo "PATCH DOES NOT APPLY"; exit 3; }
for c in "$@"; do
  QV_REPO="$wt" QV_EVIDENCE_DIR=/tmp/seeded_eval_evidence ./check "$c" --tier quick > /tmp/beval_$c.out 2>&1
  rc=$?
  echo "BREAKER $(basename $patch) $c rc=$rc $(grep -c '^VIOLATION' /tmp/beval_$c.out) sigs: $(grep 'sig=' /tmp/beval_$c.out | sed 's/.*sig=\([^ ]*\).*/\1/' | head -4 | tr '\n' ' ')"
done
git -C "$wt" checkout -q -- qbee qvm
