#!/bin/sh
# usage: tools/round_eval.sh <candidate dir with patch.diff+demo.py> <scratch worktree> <check ids...>
# 1. confirm: demo exits 0 on the clean worktree, non-zero with the patch, repository tests pass with the patch
# 2. evaluate: quick tier of the given checks against the patched worktree (QV_REPO); evidence goes to a scratch dir
cand=$1; wt=$2; shift 2
cd "$(dirname "$0")/.." || exit 2
name=$(basename $(dirname $cand))-$(basename $cand)
git -C "$wt" checkout -q --detach "$(git -C /repo rev-parse HEAD)" 2>/dev/null
git -C "$wt" checkout -q -- . 2>/dev/null
(cd "$wt" && timeout 120 /venv/bin/python "$cand/demo.py" >/dev/null 2>&1); clean=$?
if ! git -C "$wt" apply "$cand/patch.diff" 2>/dev/null; then echo "ROUND $name APPLY-FAILED"; exit 3; fi
(cd "$wt" && timeout 120 /venv/bin/python "$cand/demo.py" >/tmp/round_demo_$name.out 2>&1); broken=$?
t=$(cd "$wt" && timeout 3000 /venv/bin/python -m pytest -q -p no:cacheprovider -n ${ROUND_N:-8} 2>&1 | tail -1)
echo "ROUND $name demo_clean=$clean demo_patched=$broken tests: $t"
for c in "$@"; do
  QV_REPO="$wt" QV_EVIDENCE_DIR=/tmp/seeded_eval_evidence ./check "$c" --tier quick > /tmp/round_${name}_$c.out 2>&1
  rc=$?
  echo "ROUND $name $c rc=$rc viol=$(grep -c '^VIOLATION' /tmp/round_${name}_$c.out) sigs: $(grep 'sig=' /tmp/round_${name}_$c.out | sed 's/.*sig=\([^ ]*\).*/\1/' | head -4 | tr '\n' ' ')"
done
git -C "$wt" checkout -q -- .
