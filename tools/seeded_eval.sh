#!/bin/sh
# usage: tools/seeded_eval.sh <scratch worktree of /repo at HEAD> [seeded ids...]
# For every kept property-breaking change: apply it in the scratch worktree, run the quick tier of its property's
# check against that worktree (QV_REPO), report CAUGHT / MISSED, revert.  Never touches /repo.
wt=$1; shift
cd "$(dirname "$0")/.." || exit 2
ids="$*"; [ -z "$ids" ] && ids=$(ls seeded)
for id in $ids; do
  prop=$(echo "$id" | cut -c1-3)
  git -C "$wt" checkout -q -- . 2>/dev/null
  if ! git -C "$wt" apply "$PWD/seeded/$id/patch.diff" 2>/dev/null; then echo "SEEDED $id STALE (patch does not apply)"; continue; fi
  QV_REPO="$wt" QV_EVIDENCE_DIR=/tmp/seeded_eval_evidence ./check "$prop" --tier quick > /tmp/seeded_eval_$id.out 2>&1
  rc=$?
  n=$(grep -c '^VIOLATION' /tmp/seeded_eval_$id.out)
  if [ "$rc" = 1 ] && [ "$n" -gt 0 ]; then v=CAUGHT; else v="MISSED(rc=$rc)"; fi
  echo "SEEDED $id $v sigs: $(grep 'sig=' /tmp/seeded_eval_$id.out | sed 's/.*sig=\([^ ]*\).*/\1/' | head -3 | tr '\n' ' ')"
  git -C "$wt" checkout -q -- .
done
