#!/usr/bin/env python3
"""Turn the output of tools/seeded_eval.sh (one 'SEEDED <id> <verdict> sigs: ...' line per kept change) into seeded/RESULTS.md."""
import re
import sys

rows = {}
for path in sys.argv[1:]:
    for line in open(path):
        m = re.match(r'SEEDED (\S+) (\S+)(?: sigs: (.*))?', line.strip())
        if m:
            rows[m.group(1)] = (m.group(2), (m.group(3) or '').strip())
out = ['# Kept property-breaking changes against the quick tier of their property\'s check', '',
       'Produced by `tools/seeded_eval.sh <scratch worktree>` (each patch applied in a scratch worktree of /repo at HEAD, the check',
       'run with `QV_REPO` pointing there, evidence redirected) and `tools/seeded_results.py`.', '',
       '| change | verdict | first signatures |', '|--------|---------|------------------|']
for k in sorted(rows):
    v, s = rows[k]
    out.append(f'| {k} | {v} | {" ".join("`" + x + "`" for x in s.split()[:3])} |')
out.append('')
out.append(f'{sum(1 for v, _ in rows.values() if v == "CAUGHT")} of {len(rows)} caught.')
open('seeded/RESULTS.md', 'w').write('\n'.join(out) + '\n')
print(out[-1])
