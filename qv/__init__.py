"""qv - runtime-monitoring framework for elektito/qbee."""
import ctypes as _ctypes
import os as _os


def _install_arena_cache():
    # performance aid only (see native/arenacache.c): avoids mmap/munmap storms that serialise
    # across processes in this VM
    so = _os.path.join(_os.path.dirname(_os.path.dirname(_os.path.abspath(__file__))), '.deps',
                       'arenacache.so')
    if _os.environ.get('QV_NO_ARENACACHE') or not _os.path.exists(so):
        return False
    try:
        _ctypes.CDLL(so, mode=_ctypes.RTLD_GLOBAL).arenacache_install()
        return True
    except Exception:
        return False


ARENA_CACHE = _install_arena_cache()

if _os.environ.get('QV_REACH'):
    # line reach map of the repository code (see qv/reach.py); a guide for workloads, no verdict depends on it
    from . import reach as _reach
    REACH = _reach.install(_os.environ['QV_REACH'], _os.environ.get('QV_REPO', '/repo'))
