"""Known findings: read-only at run time, keyed by mechanism signature."""
import json
import os
import re

VERIF = os.path.dirname(os.path.dirname(os.path.abspath(__file__)))
PATH = os.path.join(VERIF, 'known_findings.json')


def load(prop):
    if not os.path.exists(PATH):
        return []
    with open(PATH) as f:
        d = json.load(f)
    return [e for e in d.get('findings', []) if prop in e['properties'] and e.get('status') == 'open']


def match(findings, sig):
    """Return the finding whose signature pattern matches sig exactly (full match), or None."""
    for e in findings:
        for pat in e['sigs']:
            if re.fullmatch(pat, sig):
                return e
    return None
