import json
import os

VERIF = os.path.dirname(os.path.dirname(os.path.abspath(__file__)))


def write(prop, tier, seed, level, coverage, wall_s, violations, assumptions=None, extra=None):
    d = {
        'property_id': prop,
        'tier': tier,
        'seed': int(seed),
        'level': level,
        'coverage': coverage,
        'assumptions': assumptions or [],
        'wall_s': round(float(wall_s), 2),
        'violations': int(violations),
    }
    if extra:
        d.update(extra)
    # breaker evaluations against a scratch worktree (QV_REPO) must not overwrite the evidence of the real tree
    evdir = os.environ.get('QV_EVIDENCE_DIR') or os.path.join(VERIF, 'evidence')
    os.makedirs(evdir, exist_ok=True)
    p = os.path.join(evdir, f'{prop}.json')
    tmp = p + '.tmp'
    with open(tmp, 'w') as f:
        json.dump(d, f, indent=1, default=repr)
    os.replace(tmp, p)
    return p
