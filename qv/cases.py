"""Case sources shared by the checks: generated programs, repo snippets, literal text."""
import random

from . import corpus
from .gen import progs, render

_snips = None


def snippets():
    global _snips
    if _snips is None:
        _snips = corpus.load_repo_snippets()
    return _snips


def gen_script(seed, n_inputs=12):
    r = random.Random(seed * 7919 + 13)
    pool = ['1', '2', '0', '-3', '7,8', '1,2,3', 'abc', '3.5', 'x,1', '1,x', '', '40000', '1e3',
            '5 , 6', '"a,b"', '9,9,9,9', '70000,1', '2.5,hello', 'hello,2', '-1,-1', '5', '10', '100', '-1', '3']
    return {
        'input': [r.choice(pool) for _ in range(n_inputs)],
        'inkey': [r.choice(['', 'a', 'q', '']) for _ in range(6)],
        'rnd': [round(r.random(), 6) for _ in range(40)],
        'timer': [1000.0 + 0.25 * i for i in range(40)],
        'peek': [r.choice([0, 1, 255]) for _ in range(8)],
    }


def source_of(case):
    """-> (text, script, meta) for a case dict with 'src' in {'gen','repo','text'}."""
    k = case['src']
    if k == 'gen':
        prog = progs.gen_program(case['seed'], **case.get('opts', {}))
        style = None
        if case.get('style') is not None:
            style = render.Style(case['style'], case.get('rules') or render.ALL_RULES)
        text, rr = render.render(prog, style)
        if case.get('reuse'):
            text, nre = render.reuse_names(text)
            prog['features'] = sorted(set(prog['features']) | ({'names-reused-across-routines'} if nre else set()))
        return text, gen_script(case['seed'] + case.get('script', 0)), {'prog': prog, 'render': rr}
    if k == 'repo':
        sn = snippets()[case['idx']]
        return sn['src'], {'rnd': sn['rnd'], 'timer': sn['timer']}, {'snippet': sn}
    if k == 'tour':
        from . import tour
        return tour.TOUR[case['idx']], dict(tour.SCRIPT), {}
    if k == 'shape':
        from . import shapes
        tag, text = shapes.programs()[case['idx']]
        return text, gen_script(case['idx']), {'shape_tag': tag}
    if k == 'text':
        return case['text'], case.get('scriptv') or gen_script(case.get('seed', 0)), {}
    raise ValueError(k)
