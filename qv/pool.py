"""Shard runner: one subprocess per shard (never multiprocessing.Pool), JSON lines back."""
import json
import os
import shutil
import subprocess
import sys
import tempfile
import time

VERIF = os.path.dirname(os.path.dirname(os.path.abspath(__file__)))
PY = os.environ.get('QV_PYTHON', '/venv/bin/python')
NPROC = int(os.environ.get('QV_NPROC', '16'))


def run_sharded(check_name, cases, shard_timeout=600, nproc=None, extra_env=None,
                pyflags=(), _retry=True):
    """Run mod.run_case(case) for every case in worker subprocesses.

    Returns (results, problems). results[i] is the dict returned for cases[i] or None.
    problems is a list of strings (dead workers, timeouts) -> inconclusive material.
    """
    nproc = nproc or NPROC
    n = len(cases)
    if n == 0:
        return [], []
    nshards = min(nproc, n)
    shards = [[] for _ in range(nshards)]
    for i, c in enumerate(cases):
        shards[i % nshards].append((i, c))
    tmp = tempfile.mkdtemp(prefix='qv-run-')
    env = dict(os.environ)
    env['PYTHONPYCACHEPREFIX'] = os.path.join(tmp, 'pyc')
    env['PYTHONPATH'] = VERIF
    env.setdefault('PYTHONHASHSEED', '0')
    if extra_env:
        env.update(extra_env)
    procs = []
    results = [None] * n
    problems = []
    redo = []
    try:
        for si, sh in enumerate(shards):
            inp = os.path.join(tmp, f'in{si}.json')
            outp = os.path.join(tmp, f'out{si}.jsonl')
            with open(inp, 'w') as f:
                json.dump(sh, f)
            cmd = [PY, '-B', '-W', 'ignore', *pyflags, '-m', 'qv.worker',
                   check_name, inp, outp]
            errf = open(os.path.join(tmp, f'err{si}.txt'), 'w')
            p = subprocess.Popen(cmd, cwd=VERIF, env=env, stdout=subprocess.DEVNULL,
                                 stderr=errf)
            procs.append((p, outp, errf, sh, si))
        deadline = time.time() + shard_timeout
        for p, outp, errf, sh, si in procs:
            remaining = max(1.0, deadline - time.time())
            try:
                rc = p.wait(timeout=remaining)
            except subprocess.TimeoutExpired:
                p.kill()
                p.wait()
                rc = 'timeout'
            errf.close()
            got = 0
            if os.path.exists(outp):
                with open(outp) as f:
                    for line in f:
                        line = line.strip()
                        if not line:
                            continue
                        try:
                            d = json.loads(line)
                        except ValueError:
                            continue
                        results[d['i']] = d['r']
                        got += 1
            if rc != 0 or got != len(sh):
                with open(errf.name) as f:
                    tail = f.read()[-1500:]
                missing = [(i, c) for i, c in sh if results[i] is None]
                if _retry and rc != 'timeout' and len(missing) > 1:
                    # the worker died (not: ran out of time): the case it died on is the problem, the rest of its
                    # shard is run again in fresh workers
                    dead_i, dead_c = missing[0]
                    problems.append(f'shard {si}: worker died (rc={rc}) on case {dead_i}: {json.dumps(dead_c)[:300]}; '
                                    f'stderr tail: {tail}')
                    redo.extend(missing[1:])
                else:
                    problems.append(f'shard {si}: rc={rc} got {got}/{len(sh)} results; stderr tail: {tail}')
    finally:
        for p, *_ in procs:
            if p.poll() is None:
                p.kill()
        shutil.rmtree(tmp, ignore_errors=True)
    if redo:
        r2, p2 = run_sharded(check_name, [c for _, c in redo], shard_timeout=shard_timeout, nproc=nproc, extra_env=extra_env,
                             pyflags=pyflags, _retry=False)
        for (i, _), r in zip(redo, r2):
            results[i] = r
        problems.extend('retry: ' + x for x in p2)
    return results, problems
