"""Make /repo's *working tree* importable, and nothing else named qbee/qvm."""
import os
import sys

REPO = os.environ.get('QV_REPO', '/repo')
VERIF = os.path.dirname(os.path.dirname(os.path.abspath(__file__)))

if REPO not in sys.path:
    sys.path.insert(0, REPO)
_deps = os.path.join(VERIF, '.deps')
if os.path.isdir(_deps) and _deps not in sys.path:
    sys.path.append(_deps)

import qbee  # noqa: E402
import qvm  # noqa: E402

for _m in (qbee, qvm):
    _p = os.path.abspath(list(_m.__path__)[0])
    assert _p.startswith(os.path.abspath(REPO) + os.sep), _p

from qbee import qvm_codegen  # noqa: E402,F401  (registers the 'qvm' code generator)
