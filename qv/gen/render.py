"""IR -> QBASIC source text. Optionally applies behaviour-neutral layout variations (C14)."""
import random

from .ir import TNAME


def fmt_float(v, t):
    s = repr(float(v))
    if 'inf' in s or 'nan' in s:
        raise ValueError(v)
    if t == '!':
        if 'e' in s:
            return s.replace('e', 'E')
        return s            # contains '.', parsed as SINGLE
    if 'e' in s:
        return s.replace('e', 'D')
    return s + '#'


class Style:
    """Neutral rewrites; all off = canonical text."""

    def __init__(self, seed=None, rules=None):
        self.r = random.Random(seed) if seed is not None else None
        self.rules = set(rules or [])
        self.labelmap = {}

    def on(self, rule, p=0.5):
        return self.r is not None and rule in self.rules and self.r.random() < p


ALL_RULES = ['case', 'spaces', 'comments', 'blank', 'colon', 'let', 'call', 'next', 'cmpop', 'labels']


class Renderer:
    def __init__(self, prog, style=None):
        self.p = prog
        self.st = style or Style()
        self.lines = []
        self.stmt_line = {}      # id(stmt) -> 1-based line number
        self.stmt_text = {}      # id(stmt) -> text of the statement
        self.ind = 0
        self.pending = None      # statement text waiting to be joined with ':'

    # ----------------------------------------------------------- tokens
    def kw(self, s):
        if self.st.on('case'):
            return ''.join(c.upper() if self.st.r.random() < 0.5 else c.lower() for c in s)
        return s

    def ident(self, s):
        if self.st.on('case'):
            return ''.join(c.upper() if self.st.r.random() < 0.5 else c.lower() for c in s)
        return s

    def sp(self):
        if self.st.on('spaces', 0.3):
            return self.st.r.choice(['  ', ' \t', '   '])
        return ' '

    def osp(self):
        """optional space next to punctuation"""
        if self.st.on('spaces', 0.3):
            return self.st.r.choice(['', ' ', '  '])
        return ''

    def label(self, l):
        if 'labels' in self.st.rules and self.st.r is not None:
            if l not in self.st.labelmap:
                if l.isdigit():
                    self.st.labelmap[l] = str(int(l) * 3 + 7)
                else:
                    self.st.labelmap[l] = 'y' + l + 'q'
            return self.st.labelmap[l]
        return l

    # ----------------------------------------------------------- expressions
    def lit(self, e):
        _, t, v = e
        if t == '$':
            return '"' + v + '"'
        if t == '%':
            return str(v)
        if t == '&':
            return str(v) if v > 32767 else f'{v}&'
        return fmt_float(v, t)

    def e(self, x):
        k = x[0]
        if k == 'lit':
            return self.lit(x)
        if k == 'var':
            return self.ident(x[1])
        if k == 'elem':
            c = ',' + self.osp()
            return f"{self.ident(x[1])}({c.join(self.e(i) for i in x[3])})"
        if k == 'fld':
            return f"{self.e(x[1])}.{self.ident(x[2])}"
        if k == 'par':
            return f"({self.osp()}{self.e(x[1])}{self.osp()})"
        if k == 'un':
            if x[1] == 'NOT':
                return f"{self.kw('NOT')}{self.sp()}{self.e(x[2])}"
            return f"{x[1]}{self.e(x[2])}"
        if k == 'bin':
            op = x[1]
            if op.isalpha():
                return f"{self.e(x[2])}{self.sp()}{self.kw(op)}{self.sp()}{self.e(x[3])}"
            if self.st.on('cmpop'):
                op = {'<>': '><', '<=': '=<', '>=': '=>'}.get(op, op)
            s1, s2 = (self.osp(), self.osp()) if self.st.r is not None and 'spaces' in self.st.rules else (' ', ' ')
            return f"{self.e(x[2])}{s1}{op}{s2}{self.e(x[3])}"
        if k == 'bcall':
            if not x[2]:
                return self.kw(x[1])
            c = ',' + self.sp()
            if x[1] in ('LBOUND', 'UBOUND'):
                return f"{self.kw(x[1])}({c.join([self.ident(x[2][0][1])] + [self.e(a) for a in x[2][1:]])})"
            return f"{self.kw(x[1])}({c.join(self.e(a) for a in x[2])})"
        if k == 'ucall':
            if not x[2]:
                return self.ident(x[1])
            c = ',' + self.sp()
            return f"{self.ident(x[1])}({c.join(self.e(a) for a in x[2])})"
        if k == 'arr':
            return f"{self.ident(x[1])}()"
        raise ValueError(x)

    # ----------------------------------------------------------- lines
    def flush(self):
        if self.pending is not None:
            self.lines.append(self.pending)
            self.pending = None

    def emit(self, text, stmt=None, joinable=False, prefix=''):
        """Emit one statement; joinable simple statements may be joined with ':' (C14)."""
        if stmt is not None:
            self.stmt_text[id(stmt)] = text
        if joinable and self.pending is not None and self.st.on('colon', 0.4):
            self.pending += self.osp() + ':' + self.osp() + text
            if stmt is not None:
                self.stmt_line[id(stmt)] = len(self.lines) + 1
            return
        self.flush()
        if self.st.on('blank', 0.1):
            self.lines.append('')
        if self.st.on('comments', 0.1):
            self.lines.append(self.kw('REM') + ' a remark')
        ind = '  ' * self.ind
        if self.st.on('spaces', 0.3):
            ind = self.st.r.choice(['', ' ', '\t', '    '])
        line = prefix + ind + text
        if stmt is not None:
            self.stmt_line[id(stmt)] = len(self.lines) + 1
        if joinable:
            self.pending = line
        else:
            if not text.upper().startswith('DATA') and self.st.on('comments', 0.1):
                line += " ' trailing"
            self.lines.append(line)

    def tname(self, t):
        if isinstance(t, tuple):
            return self.ident(t[1])
        return self.kw(TNAME[t])

    def decl(self, name, t, dims):
        s = self.ident(name)
        if dims is not None:
            parts = []
            for lb, ub in dims:
                if lb is None:
                    parts.append(self.e(ub))
                else:
                    parts.append(f"{self.e(lb)}{self.sp()}{self.kw('TO')}{self.sp()}{self.e(ub)}")
            s += '(' + (',' + self.osp()).join(parts) + ')'
        if not (isinstance(t, str) and name.endswith(t)):
            s += f" {self.kw('AS')} {self.tname(t)}"
        return s

    def simple_text(self, s):
        k = s[0]
        if k == 'let':
            use_let = s[3]
            if self.st.r is not None and 'let' in self.st.rules:
                use_let = self.st.r.random() < 0.5
            pre = self.kw('LET') + self.sp() if use_let else ''
            return f"{pre}{self.e(s[1])}{self.osp() or ' '}={self.osp() or ' '}{self.e(s[2])}"
        if k == 'print':
            out = self.kw('PRINT')
            first = True
            for it in s[1]:
                if isinstance(it, str):
                    out += it
                else:
                    out += (self.sp() if first or True else '') + self.e(it[1])
                first = False
            return out
        if k == 'printusing':
            out = f"{self.kw('PRINT')} {self.kw('USING')} {self.e(s[1])};"
            out += ('; ' if True else ', ').join(' ' + self.e(x) for x in s[2])
            if s[3]:
                out += s[3]
            return out
        if k == 'call':
            paren = s[3]
            if self.st.r is not None and 'call' in self.st.rules:
                paren = self.st.r.random() < 0.5
            args = (',' + self.sp()).join(self.e(a) for a in s[2])
            if paren:
                return f"{self.kw('CALL')} {self.ident(s[1])}" + (f"({args})" if s[2] else '')
            return f"{self.ident(s[1])}" + (f" {args}" if s[2] else '')
        if k == 'read':
            return f"{self.kw('READ')} " + (',' + self.sp()).join(self.e(a) for a in s[1])
        if k == 'restore':
            return self.kw('RESTORE') + (f" {self.label(s[1])}" if s[1] else '')
        if k == 'input':
            out = self.kw('INPUT') + ' '
            if s[1] is not None:
                out += f'"{s[1]}"{s[2]} '
            return out + (',' + self.sp()).join(self.e(a) for a in s[3])
        if k == 'dev':
            n, a = s[1], s[2]
            A = [self.e(x) for x in a]
            if n in ('CLS', 'BEEP'):
                return self.kw(n)
            if n == 'VIEWPRINT':
                return f"{self.kw('VIEW')} {self.kw('PRINT')} {A[0]} {self.kw('TO')} {A[1]}"
            if n == 'DEFSEG':
                return f"{self.kw('DEF')} {self.kw('SEG')}" + (f" = {A[0]}" if A else '')
            return f"{self.kw(n)} " + ', '.join(A)
        if k == 'exitfor':
            return f"{self.kw('EXIT')} {self.kw('FOR')}"
        if k == 'exitdo':
            return f"{self.kw('EXIT')} {self.kw('DO')}"
        if k == 'exitsub':
            return f"{self.kw('EXIT')} {self.kw('SUB')}"
        if k == 'exitfunction':
            return f"{self.kw('EXIT')} {self.kw('FUNCTION')}"
        if k == 'goto':
            return f"{self.kw('GOTO')} {self.label(s[1])}"
        if k == 'gosub':
            return f"{self.kw('GOSUB')} {self.label(s[1])}"
        if k == 'return':
            return self.kw('RETURN')
        if k == 'end':
            return self.kw('END')
        if k == 'onerror':
            if s[1] == 'next':
                return f"{self.kw('ON')} {self.kw('ERROR')} {self.kw('RESUME')} {self.kw('NEXT')}"
            return f"{self.kw('ON')} {self.kw('ERROR')} {self.kw('GOTO')} {self.label(str(s[1])) if s[1] != 0 else 0}"
        if k == 'resume':
            return self.kw('RESUME') + (f" {self.kw('NEXT')}" if s[1] == 'next' else '')
        if k == 'raw':
            return s[1]
        raise ValueError(s)

    JOINABLE = {'let', 'print', 'call', 'read', 'restore', 'dev', 'printusing'}

    def stmts(self, body):
        for s in body:
            self.stmt(s)

    def stmt(self, s):
        k = s[0]
        if k == 'dim':
            _, scope, name, t, dims = s
            kwd = {'dim': self.kw('DIM'), 'shared': f"{self.kw('DIM')} {self.kw('SHARED')}",
                   'static': self.kw('STATIC')}[scope]
            self.emit(f"{kwd} {self.decl(name, t, dims)}", s)
        elif k == 'const':
            self.emit(f"{self.kw('CONST')} {self.ident(s[1])} = {self.e(s[2])}", s)
        elif k == 'data':
            self.emit(f"{self.kw('DATA')} " + ', '.join(s[1]), s)
        elif k == 'label':
            self.flush()
            l = self.label(s[1])
            if l.isdigit():
                self.emit(l + ' ' + self.kw('REM'), s)     # a line number needs something after it? keep a REM
            else:
                self.emit(l + ':', s)
        elif k == 'if':
            arms, els = s[1], s[2]
            for i, (c, b) in enumerate(arms):
                if i == 0:
                    self.emit(f"{self.kw('IF')} {self.e(c)} {self.kw('THEN')}", s)
                    self.stmt_line[('if', id(s), 0)] = self.stmt_line[id(s)]
                else:
                    self.flush()
                    self.emit(f"{self.kw('ELSEIF')} {self.e(c)} {self.kw('THEN')}")
                    self.stmt_line[('if', id(s), i)] = len(self.lines)
                self.ind += 1
                self.stmts(b)
                self.ind -= 1
            if els is not None:
                self.flush()
                self.emit(self.kw('ELSE'))
                self.ind += 1
                self.stmts(els)
                self.ind -= 1
            self.flush()
            self.emit(f"{self.kw('END')} {self.kw('IF')}")
        elif k == 'ifline':
            th = (' : ').join(self.simple_text(x) for x in s[2])
            out = f"{self.kw('IF')} {self.e(s[1])} {self.kw('THEN')} {th}"
            if s[3]:
                out += f" {self.kw('ELSE')} " + ' : '.join(self.simple_text(x) for x in s[3])
            self.emit(out, s)
            for x in s[2] + (s[3] or []):
                self.stmt_line[id(x)] = self.stmt_line[id(s)]
                self.stmt_text[id(x)] = self.simple_text(x) if self.st.r is None else ''
        elif k == 'for':
            _, v, a, b, st, body, nextvar = s
            out = f"{self.kw('FOR')} {self.e(v)} = {self.e(a)} {self.kw('TO')} {self.e(b)}"
            if st is not None:
                out += f" {self.kw('STEP')} {self.e(st)}"
            self.emit(out, s)
            self.ind += 1
            self.stmts(body)
            self.ind -= 1
            self.flush()
            if self.st.r is not None and 'next' in self.st.rules:
                nextvar = self.st.r.random() < 0.5
            self.emit(self.kw('NEXT') + (f" {self.e(v)}" if nextvar else ''))
            self.stmt_line[('next', id(s))] = len(self.lines) + (1 if self.pending else 0)
        elif k == 'while':
            self.emit(f"{self.kw('WHILE')} {self.e(s[1])}", s)
            self.ind += 1
            self.stmts(s[2])
            self.ind -= 1
            self.flush()
            self.emit(self.kw('WEND'))
        elif k == 'do':
            _, kind, c, body = s
            if kind == 'pre_while':
                self.emit(f"{self.kw('DO')} {self.kw('WHILE')} {self.e(c)}", s)
            elif kind == 'pre_until':
                self.emit(f"{self.kw('DO')} {self.kw('UNTIL')} {self.e(c)}", s)
            else:
                self.emit(self.kw('DO'), s)
            self.ind += 1
            self.stmts(body)
            self.ind -= 1
            self.flush()
            if kind == 'post_while':
                self.emit(f"{self.kw('LOOP')} {self.kw('WHILE')} {self.e(c)}")
            elif kind == 'post_until':
                self.emit(f"{self.kw('LOOP')} {self.kw('UNTIL')} {self.e(c)}")
            else:
                self.emit(self.kw('LOOP'))
            self.stmt_line[('loop', id(s))] = len(self.lines)
        elif k == 'select':
            _, sel, cases, els = s
            self.emit(f"{self.kw('SELECT')} {self.kw('CASE')} {self.e(sel)}", s)
            self.ind += 1
            for items, body in cases:
                parts = []
                for it in items:
                    if it[0] == 'v':
                        parts.append(self.e(it[1]))
                    elif it[0] == 'range':
                        parts.append(f"{self.e(it[1])} {self.kw('TO')} {self.e(it[2])}")
                    else:
                        parts.append(f"{self.kw('IS')} {it[1]} {self.e(it[2])}")
                self.flush()
                self.emit(f"{self.kw('CASE')} " + ', '.join(parts))
                self.ind += 1
                self.stmts(body)
                self.ind -= 1
            if els is not None:
                self.flush()
                self.emit(f"{self.kw('CASE')} {self.kw('ELSE')}")
                self.ind += 1
                self.stmts(els)
                self.ind -= 1
            self.ind -= 1
            self.flush()
            self.emit(f"{self.kw('END')} {self.kw('SELECT')}")
        else:
            self.emit(self.simple_text(s), s, joinable=(k in self.JOINABLE))

    def render(self):
        p = self.p
        if p.get('deftype'):
            self.emit(f"{self.kw(p['deftype'])} A-Z")
        for tn, fields in p['types']:
            self.emit(f"{self.kw('TYPE')} {self.ident(tn)}")
            self.ind += 1
            for fn, ft in fields:
                self.emit(f"{self.ident(fn)} {self.kw('AS')} {self.tname(ft)}")
            self.ind -= 1
            self.emit(f"{self.kw('END')} {self.kw('TYPE')}")
        self.stmts(p['main'])
        self.flush()
        for pr in p['procs']:
            ps = []
            for (pn, pt, isarr), style in zip(pr['params'], pr.get('pstyle') or [False] * len(pr['params'])):
                if isarr:
                    ps.append(f"{self.ident(pn)}()")
                elif style and not pn.endswith(pt):
                    ps.append(f"{self.ident(pn)} {self.kw('AS')} {self.tname(pt)}")
                else:
                    ps.append(self.ident(pn))
            head = f"{self.kw('SUB' if pr['kind'] == 'sub' else 'FUNCTION')} {self.ident(pr['name'])}"
            if ps:
                head += f" ({', '.join(ps)})"
            if pr['static']:
                head += ' ' + self.kw('STATIC')
            self.flush()
            self.emit(head, pr['body'])
            self.ind += 1
            self.stmts(pr['body'])
            self.ind -= 1
            self.flush()
            self.emit(f"{self.kw('END')} {self.kw('SUB' if pr['kind'] == 'sub' else 'FUNCTION')}")
        self.flush()
        return '\n'.join(self.lines) + '\n'


def render(prog, style=None):
    r = Renderer(prog, style)
    text = r.render()
    return text, r


# ----------------------------------------------------------------------------------------------------------------------
# The generator gives every variable of a program its own name, which hides every scoping mistake a compiler can make.
# reuse_names rewrites the *text* so that the locals of different routines (and the non-shared variables of the main
# program) draw their names from one small pool: the same spelling then denotes different variables in different routines,
# exactly where the language's scoping rules keep them apart.  The IR (and therefore RefQB) keeps the unique names.
_LOCAL_PREFIXES = ('zv', 'za', 'zr', 'zk', 'zi', 'zs', 'zq', 'zc')
_IDENT_RE = __import__('re').compile(r'"[^"\n]*"|\bz[a-zA-Z]+\d+\b')


def reuse_names(text):
    import re
    lines = text.split('\n')
    routine_of = []
    cur = 0
    nrt = 0
    for ln in lines:
        u = ln.strip().upper()
        if u.startswith(('SUB ', 'FUNCTION ')):
            nrt += 1
            cur = nrt
        routine_of.append(cur)
        if u.startswith(('END SUB', 'END FUNCTION')):
            cur = 0
    where = {}
    for ln, rt_ in zip(lines, routine_of):
        if ln.strip().upper().startswith(('DATA ', "'", 'REM ')):
            continue
        for m in _IDENT_RE.finditer(ln):
            tok = m.group(0)
            if tok.startswith('"'):
                continue
            where.setdefault(tok.lower(), set()).add(rt_)
    shared = set()
    for ln in lines:
        if re.search(r'\bSHARED\b', ln, re.I):
            shared.update(m.group(0).lower() for m in _IDENT_RE.finditer(ln) if not m.group(0).startswith('"'))
    mapping = {}     # (routine, name) -> new name
    counters = {}
    for name in sorted(where, key=lambda s_: (int(re.search(r'\d+', s_).group(0)), s_)):
        rts = where[name]
        if len(rts) != 1 or not name.startswith(_LOCAL_PREFIXES) or name in shared:
            continue
        rt_ = next(iter(rts))
        if rt_ == 0 and name.startswith('zc'):
            continue            # a module-level CONST is visible everywhere: it keeps its own name
        counters[rt_] = counters.get(rt_, 0) + 1
        mapping[(rt_, name)] = f'zn{counters[rt_]}'
    out = []
    for ln, rt_ in zip(lines, routine_of):
        if ln.strip().upper().startswith(('DATA ', "'", 'REM ')):
            out.append(ln)
            continue

        def sub(m, rt_=rt_):
            tok = m.group(0)
            if tok.startswith('"'):
                return tok
            new = mapping.get((rt_, tok.lower()))
            return new if new is not None else tok
        out.append(_IDENT_RE.sub(sub, ln))
    return '\n'.join(out), len(mapping)
