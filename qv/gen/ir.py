"""Typed program IR shared by the generator, the renderer and the reference interpreter.

Types: '%' INTEGER, '&' LONG, '!' SINGLE, '#' DOUBLE, '$' STRING, or ('rec', typename).

Expressions (tuples):
  ('lit', t, v)                     v >= 0 for numbers (negatives are ('un','-',...))
  ('var', name, t)                  scalar variable / const / parameter, rendered name includes suffix
  ('elem', name, t, [idx...])       array element (t element type, may be ('rec', ..))
  ('fld', base_lvalue, fname, t)    record field of a var/elem/fld lvalue
  ('bin', op, a, b)                 op in + - * / \\ MOD ^ = <> < > <= >= AND OR XOR EQV IMP
  ('un', op, a)                     op in - NOT +
  ('par', a)
  ('bcall', fname, [args])          builtin
  ('ucall', fname, [args], t)       user FUNCTION; args are exprs (lvalues are by reference)
  ('arr', name)                     array pass  name()
Statements (lists, first element is the kind) - see render.py / interp.py for the shapes.
"""
import struct

NUM = '%&!#'
RANK = {'%': 0, '&': 1, '!': 2, '#': 3}
TNAME = {'%': 'INTEGER', '&': 'LONG', '!': 'SINGLE', '#': 'DOUBLE', '$': 'STRING'}

ARITH = ('+', '-', '*', '/', '\\', 'MOD', '^')
CMP = ('=', '<>', '<', '>', '<=', '>=')
LOGIC = ('AND', 'OR', 'XOR', 'EQV', 'IMP')

BUILTIN_RT = {  # qbee dialect result types (hard-coded copy; see DESIGN §6)
    'ABS': None, 'ASC': '%', 'CHR$': '$', 'CINT': '%', 'CLNG': '&', 'INSTR': '&', 'INT': '&',
    'LBOUND': '&', 'UBOUND': '&', 'LCASE$': '$', 'UCASE$': '$', 'LEFT$': '$', 'RIGHT$': '$',
    'MID$': '$', 'LEN': '&', 'LTRIM$': '$', 'RTRIM$': '$', 'SPACE$': '$', 'STR$': '$',
    'STRING$': '$', 'VAL': '#', 'RND': '!', 'TIMER': '!', 'INKEY$': '$', 'ERR': '%', 'PEEK': '%',
}


def is_num(t):
    return isinstance(t, str) and t in NUM


def rsingle(x):
    return struct.unpack('>f', struct.pack('>f', x))[0]


def etype(e):
    """Static type of an expression under the qbee dialect's (documented) rules."""
    k = e[0]
    if k == 'lit':
        return e[1]
    if k in ('var',):
        return e[2]
    if k == 'elem':
        return e[2]
    if k == 'fld':
        return e[3]
    if k == 'par':
        return etype(e[1])
    if k == 'un':
        t = etype(e[2])
        if e[1] == 'NOT':
            return '%' if t == '%' else '&'
        return t
    if k == 'bin':
        op = e[1]
        a, b = etype(e[2]), etype(e[3])
        if op in CMP:
            return '%'
        if op in LOGIC or op == 'MOD':
            return '%' if a == '%' and b == '%' else '&'
        if a == '$':
            return '$'
        if op == '\\':
            return '%' if a == '%' and b == '%' else '&'
        r = max(RANK[a], RANK[b])
        if op == '/' and r < 2:
            return '!'
        return NUM[r]
    if k == 'bcall':
        rt = BUILTIN_RT[e[1]]
        if rt is None:
            return etype(e[2][0])
        return rt
    if k == 'ucall':
        return e[3]
    raise ValueError(e)


def is_lvalue(e):
    return e[0] in ('var', 'elem', 'fld')


# ----------------------------------------------------------------------------------------------------------------------
# Operator precedence of the source language (high -> low): ^, unary minus, * /, \, MOD, + -, relational, NOT, AND, OR,
# XOR, EQV, IMP; binary operators associate to the left.  The generator parenthesises every nested operand; strip_parens
# removes, with probability p, the parentheses that this table makes redundant, so that the rendered text exercises the
# compiler's own precedence and associativity while the IR tree (what RefQB evaluates) stays the same.
PREC = {'^': 1, '*': 3, '/': 3, '\\': 4, 'MOD': 5, '+': 6, '-': 6, '=': 7, '<>': 7, '<': 7, '>': 7, '<=': 7, '>=': 7,
        'AND': 9, 'OR': 10, 'XOR': 11, 'EQV': 12, 'IMP': 13}
_EXPR_TAGS = {'lit', 'var', 'elem', 'fld', 'bin', 'un', 'par', 'bcall', 'ucall', 'arr'}


def _droppable_left(c, op):
    if op == '^':
        return False
    if c[0] == 'bin':
        return PREC[c[1]] <= PREC[op]
    if c[0] == 'un':
        if c[1] == '-':
            return PREC[op] >= 3
        if c[1] == 'NOT':
            return PREC[op] >= 9
    return c[0] in ('lit', 'var', 'elem', 'fld', 'bcall', 'ucall')


def _droppable_right(c, op):
    if op == '^':
        return False
    if c[0] == 'bin':
        return PREC[c[1]] < PREC[op]
    if c[0] == 'un':
        return c[1] == 'NOT' and PREC[op] >= 9
    return c[0] in ('lit', 'var', 'elem', 'fld', 'bcall', 'ucall')


def strip_parens_expr(e, r, p, counter=None):
    k = e[0]
    if k == 'bin':
        op = e[1]
        a = strip_parens_expr(e[2], r, p, counter)
        b = strip_parens_expr(e[3], r, p, counter)
        if a[0] == 'par' and _droppable_left(a[1], op) and r.random() < p:
            a = a[1]
            if counter is not None:
                counter[0] += 1
        if b[0] == 'par' and _droppable_right(b[1], op) and r.random() < p:
            b = b[1]
            if counter is not None:
                counter[0] += 1
        return ('bin', op, a, b)
    if k == 'un':
        a = strip_parens_expr(e[2], r, p, counter)
        if e[1] == 'NOT' and a[0] == 'par' and a[1][0] == 'bin' and PREC[a[1][1]] <= 7 and r.random() < p:
            a = a[1]
            if counter is not None:
                counter[0] += 1
        return ('un', e[1], a)
    if k == 'par':
        return ('par', strip_parens_expr(e[1], r, p, counter))
    if k == 'elem':
        return ('elem', e[1], e[2], [strip_parens_expr(i, r, p, counter) for i in e[3]]) + tuple(e[4:])
    if k == 'fld':
        return ('fld', strip_parens_expr(e[1], r, p, counter)) + tuple(e[2:])
    if k in ('bcall', 'ucall'):
        return (k, e[1], [strip_parens_expr(a, r, p, counter) for a in e[2]]) + tuple(e[3:])
    return e


def strip_parens(obj, r, p, counter=None):
    """Walk any IR container (statement lists, dicts of procedures); rebuild expression tuples, mutate lists in place."""
    if isinstance(obj, tuple):
        if obj and isinstance(obj[0], str) and obj[0] in _EXPR_TAGS and obj[0] in ('bin', 'un', 'par', 'elem', 'fld', 'bcall', 'ucall'):
            try:
                return strip_parens_expr(obj, r, p, counter)
            except (KeyError, IndexError, TypeError):
                return obj
        return tuple(strip_parens(x, r, p, counter) for x in obj)
    if isinstance(obj, list):
        for i, x in enumerate(obj):
            obj[i] = strip_parens(x, r, p, counter)
        return obj
    if isinstance(obj, dict):
        for k_ in list(obj):
            obj[k_] = strip_parens(obj[k_], r, p, counter)
        return obj
    return obj
