"""Typed program IR shared by the generator, the renderer and the reference interpreter.

Types: '%' INTEGER, '&' LONG, '!' SINGLE, '#' DOUBLE, '$' STRING, or ('rec', typename).

Expressions (tuples):
  ('lit', t, v)                     v >= 0 for numbers (negatives are ('un','-',...))
  ('var', name, t)                  scalar variable / const / parameter, rendered name includes suffix
  ('elem', name, t, [idx...])       array element (t element type, may be ('rec', ..))
  ('fld', base_lvalue, fname, t)    record field of a var/elem/fld lvalue
  ('bin', op, a, b)                 op in + - * / \\ MOD ^ = <> < > <= >= AND OR XOR EQV IMP
  ('un', op, a)                     op in - NOT +
  ('par', a)
  ('bcall', fname, [args])          builtin
  ('ucall', fname, [args], t)       user FUNCTION; args are exprs (lvalues are by reference)
  ('arr', name)                     array pass  name()
Statements (lists, first element is the kind) - see render.py / interp.py for the shapes.
"""
import struct

NUM = '%&!#'
RANK = {'%': 0, '&': 1, '!': 2, '#': 3}
TNAME = {'%': 'INTEGER', '&': 'LONG', '!': 'SINGLE', '#': 'DOUBLE', '$': 'STRING'}

ARITH = ('+', '-', '*', '/', '\\', 'MOD', '^')
CMP = ('=', '<>', '<', '>', '<=', '>=')
LOGIC = ('AND', 'OR', 'XOR', 'EQV', 'IMP')

BUILTIN_RT = {  # qbee dialect result types (hard-coded copy; see DESIGN §6)
    'ABS': None, 'ASC': '%', 'CHR$': '$', 'CINT': '%', 'CLNG': '&', 'INSTR': '&', 'INT': '&',
    'LBOUND': '&', 'UBOUND': '&', 'LCASE$': '$', 'UCASE$': '$', 'LEFT$': '$', 'RIGHT$': '$',
    'MID$': '$', 'LEN': '&', 'LTRIM$': '$', 'RTRIM$': '$', 'SPACE$': '$', 'STR$': '$',
    'STRING$': '$', 'VAL': '#', 'RND': '!', 'TIMER': '!', 'INKEY$': '$', 'ERR': '%', 'PEEK': '%',
}


def is_num(t):
    return isinstance(t, str) and t in NUM


def rsingle(x):
    return struct.unpack('>f', struct.pack('>f', x))[0]


def etype(e):
    """Static type of an expression under the qbee dialect's (documented) rules."""
    k = e[0]
    if k == 'lit':
        return e[1]
    if k in ('var',):
        return e[2]
    if k == 'elem':
        return e[2]
    if k == 'fld':
        return e[3]
    if k == 'par':
        return etype(e[1])
    if k == 'un':
        t = etype(e[2])
        if e[1] == 'NOT':
            return '%' if t == '%' else '&'
        return t
    if k == 'bin':
        op = e[1]
        a, b = etype(e[2]), etype(e[3])
        if op in CMP:
            return '%'
        if op in LOGIC or op == 'MOD':
            return '%' if a == '%' and b == '%' else '&'
        if a == '$':
            return '$'
        if op == '\\':
            return '%' if a == '%' and b == '%' else '&'
        r = max(RANK[a], RANK[b])
        if op == '/' and r < 2:
            return '!'
        return NUM[r]
    if k == 'bcall':
        rt = BUILTIN_RT[e[1]]
        if rt is None:
            return etype(e[2][0])
        return rt
    if k == 'ucall':
        return e[3]
    raise ValueError(e)


def is_lvalue(e):
    return e[0] in ('var', 'elem', 'fld')
