"""Seeded typed random program generator over the IR (terminating by construction)."""
import random

from .ir import NUM, RANK, etype, is_num

STR_POOL = ['', 'a', 'Hello', 'abc def', 'QB', '  pad  ', 'x,y', 'zzzzzzzzzzzzz', 'ABCDEFGHIJKLMN',
            'ABCDEFGHIJKLMNO', '12', '3.5', '-7', '1e2', 'hello world', 'tab\there', "it's; REM : x", '\u00e9t\u00e9']
INT_POOL = [0, 1, 2, 3, 5, 7, 10, 12, 100, 255, 1000, 32767]
LNG_POOL = [0, 1, 2, 40000, 65536, 100000, 2147483647, 70000]
SNG_POOL = [0.0, 0.5, 1.5, 2.5, 3.25, 0.1, 10.75, 1000000.0, 1.0e10, 123.456, 0.001]
DBL_POOL = [0.0, 0.5, 1.5, 2.5, 0.1, 3.141592653589793, 1.0e15, 1.0e100, 123456789.125]


class Opts:
    """Feature switches; checks turn grey zones / known-finding triggers off."""

    def __init__(self, **kw):
        self.max_stmts = 14
        self.max_depth = 2
        self.expr_depth = 2
        self.procs = True
        self.records = True
        self.arrays = True
        self.gosub = True
        self.data = True
        self.input = True
        self.devices = True
        self.rnd = True
        self.on_error = False
        self.neg_intdiv = True        # negative operands to \ and MOD
        self.long_div = False         # '/' with a LONG operand (grey zone)
        self.int_pow = False          # '^' with integral operands (grey zone)
        self.pow = True
        self.big_values = True        # values near type limits (overflow errors happen)
        self.select = True
        self.do_until_int = True      # DO UNTIL with non-boolean integer conditions
        self.for_float = True
        self.defint = True
        self.consts = True
        self.print_using = False
        self.byval_args = True
        self.string_cmp = True
        self.tags = False             # give every simple statement a unique literal tag (C11/C12)
        self.static_vars = True
        self.nested_records = True
        self.dynamic_arrays = True
        self.idiv_float = True        # float operands to \ and MOD
        self.logic_float = True       # float operands to AND/OR/NOT ...
        self.for_param = False        # FOR over a by-reference parameter (known finding)
        self.exit_stmts = True
        self.builtins = True
        self.seed_vars = False        # initialise a few variables from INPUT / RND so that paths depend on the script
        self.strip_parens = 0.6       # probability of dropping a pair of parentheses that operator precedence makes redundant
        self.__dict__.update(kw)


class Scope:
    def __init__(self, kind, name):
        self.kind = kind          # 'main' | 'sub' | 'function'
        self.name = name
        self.scalars = []         # (name, t)   rendered name (with suffix or plain if DIM AS)
        self.arrays = []          # (name, elem_t, [(lb, ub)...], dynamic)
        self.records = []         # (name, typename)
        self.consts = []          # (name, t)
        self.loopvars = set()     # names currently used as FOR counters
        self.params = []


class Gen:
    def __init__(self, seed, opts=None):
        self.r = random.Random(seed)
        self.seed = seed if isinstance(seed, int) else 0
        self.o = opts or Opts()
        self.n = 0
        self.types = []           # (tname, [(fname, ftype)])
        self.shared = Scope('shared', None)
        self.procs = []           # dict(kind,name,rtype,params,static,body)
        self.labels = 0
        self.data_items = []      # flat list of (text, kind) in source order, for READ typing
        self.data_cursor_hint = 0
        self.features = set()
        self.tagn = 1000
        self.in_function = False
        self.gosubs = []

    # ------------------------------------------------------------------ names
    def fresh(self, prefix):
        self.n += 1
        return f'z{prefix}{self.n}'

    # ------------------------------------------------------------------ literals
    def lit(self, t):
        r = self.r
        if t == '%':
            v = r.choice(INT_POOL) if r.random() < 0.7 else r.randint(0, 300)
            if not self.o.big_values and v > 1000:
                v = v % 100
            return ('lit', '%', v)
        if t == '&':
            v = r.choice(LNG_POOL) if r.random() < 0.7 else r.randint(0, 100000)
            if not self.o.big_values and v > 100000:
                v = v % 100000
            if self.o.tags and 41000 <= v < 50000:
                v -= 10000          # keep the tag range free of ordinary literals
            return ('lit', '&', v)
        if t == '!':
            v = r.choice(SNG_POOL)
            if not self.o.big_values and v > 1e6:
                v = 2.5
            return ('lit', '!', v)
        if t == '#':
            v = r.choice(DBL_POOL)
            if not self.o.big_values and v > 1e9:
                v = 2.5
            return ('lit', '#', v)
        return ('lit', '$', r.choice(STR_POOL))

    def nonzero_lit(self, t):
        r = self.r
        if t in '%&':
            return ('lit', t, r.choice([1, 2, 3, 5, 7, 10, 100]))
        return ('lit', t, r.choice([0.5, 1.5, 2.5, 4.0, 0.25]))

    def numt(self):
        return self.r.choice('%%%&&!!#')

    def anyt(self):
        return self.r.choice('%%&!#$$')

    # ------------------------------------------------------------------ expressions
    def vars_of(self, sc, t):
        out = []
        for scope in (sc, self.shared) if sc is not self.shared else (sc,):
            for n, vt in scope.scalars:
                if vt == t:
                    out.append(('var', n, vt))
            for n, vt in scope.consts:
                if vt == t:
                    out.append(('var', n, vt))
        return out

    def lvalues_of(self, sc, t, allow_loopvars=False):
        """Assignable locations of type t visible in sc."""
        out = []
        scopes = (sc, self.shared) if sc is not self.shared else (sc,)
        for scope in scopes:
            for n, vt in scope.scalars:
                if vt == t and (allow_loopvars or n not in sc.loopvars):
                    out.append(('var', n, vt))
            for n, et, dims, dyn in scope.arrays:
                if et == t:
                    out.append(('elem', n, et, [self.index_expr(sc, lb, ub) for lb, ub in dims]))
                elif isinstance(et, tuple):
                    base = ('elem', n, et, [self.index_expr(sc, lb, ub) for lb, ub in dims])
                    out.extend(self.fields_of(base, et[1], t))
            for n, tn in scope.records:
                base = ('var', n, ('rec', tn))
                out.extend(self.fields_of(base, tn, t))
        return out

    def fields_of(self, base, tn, t):
        out = []
        for fname, ft in dict(self.types)[tn]:
            if ft == t:
                out.append(('fld', base, fname, ft))
            elif isinstance(ft, tuple):
                out.extend(self.fields_of(('fld', base, fname, ft), ft[1], t))
        return out

    def index_expr(self, sc, lb, ub):
        r = self.r
        p = r.random()
        if p < 0.85:
            v = r.randint(lb, ub)
        elif p < 0.97:
            v = r.choice([lb, ub])
        else:
            v = r.choice([lb - 1, ub + 1])      # subscript out of range on purpose
            self.features.add('subscript-oob')
        e = ('lit', '%', abs(v))
        if v < 0:
            e = ('un', '-', e)
        if r.random() < 0.2:
            # index through an integer variable expression: v + (x - x)
            cands = self.vars_of(sc, '%')
            if cands:
                x = r.choice(cands)
                e = ('bin', '+', e, ('par', ('bin', '-', x, x)))
        return e

    def expr(self, sc, t, depth=None):
        """Expression whose static type is exactly t ('$') or some numeric type when t == 'n'."""
        r = self.r
        if depth is None:
            depth = self.o.expr_depth
        if t == 'n':
            t = self.numt()
        if t == '$':
            return self.sexpr(sc, depth)
        return self.nexpr(sc, t, depth)

    def atom(self, sc, t):
        r = self.r
        cands = self.lvalues_of(sc, t, allow_loopvars=True) + self.vars_of(sc, t)
        if cands and r.random() < 0.6:
            return r.choice(cands)
        e = self.lit(t)
        if is_num(t) and r.random() < 0.2:
            e = ('un', '-', e)
            if r.random() < 0.5:
                e = ('par', e)
        return e

    def nexpr(self, sc, t, depth):
        """Numeric expression; static type is t."""
        r = self.r
        o = self.o
        if depth <= 0 or r.random() < 0.25:
            return self.atom(sc, t)
        p = r.random()
        if p < 0.50:
            # arithmetic whose result type is t: at least one operand of rank t, other <= t
            op = r.choice(['+', '-', '*', '+', '-', '*', '/', '^'])
            if op == '^' and (not o.pow or (t in '%&' and not o.int_pow)):
                op = '+'
            if op == '/':
                if t in '%&':
                    op = '+'
                elif t == '#':
                    pass
            ta = t
            tb = NUM[r.randint(0, RANK[t])]
            if op == '/' and t == '!':
                # INTEGER/INTEGER -> SINGLE as well
                ta = r.choice('%!') if not o.long_div else r.choice('%&!')
                tb = r.choice('%!') if not o.long_div else r.choice('%&!')
            if op == '/' and not o.long_div and ('&' in (ta, tb)):
                tb = ta = t
            if op == '^':
                ta = tb = t if t in '!#' else t
                if t in '!#' and r.random() < 0.5:
                    tb = t
            if r.random() < 0.5:
                ta, tb = tb, ta
            a = self.nexpr(sc, ta, depth - 1)
            if op == '^':
                # keep exponents small and non-negative literal, parenthesised base
                b = ('lit', tb, r.choice([0, 1, 2, 3]) if tb in '%&' else r.choice([0.0, 0.5, 1.0, 2.0, 3.0]))
                a = ('par', a)
                e = ('bin', op, a, b)
                if etype(e) != t:
                    return self.atom(sc, t)
                self.features.add('pow')
                return e
            b = self.nexpr(sc, tb, depth - 1)
            if op == '/' and r.random() < 0.8:
                b = self.nonzero_lit(tb)       # most divisors are non-zero (division by zero stays reachable)
            a = self.paren_if_needed(a)
            b = self.paren_if_needed(b, right=True)
            e = ('bin', op, a, b)
            if etype(e) != t:
                return self.atom(sc, t)
            return e
        if p < 0.60 and t in '%&':
            op = r.choice(['\\', 'MOD'])
            ta = t
            tb = NUM[r.randint(0, RANK[t])]
            if o.idiv_float and r.random() < 0.2 and t == '&':
                ta = r.choice('!#')
            if r.random() < 0.5:
                ta, tb = tb, ta
            a = self.paren_if_needed(self.nexpr(sc, ta, depth - 1))
            b = self.paren_if_needed(self.nexpr(sc, tb, depth - 1), right=True)
            if r.random() < 0.8:
                b = self.nonzero_lit(tb)
                if o.neg_intdiv and r.random() < 0.3:
                    b = ('par', ('un', '-', b))
            e = ('bin', op, a, b)
            if etype(e) != t:
                return self.atom(sc, t)
            self.features.add('intdiv-mod')
            return e
        if p < 0.70 and t in '%&':
            op = r.choice(['AND', 'OR', 'XOR', 'EQV', 'IMP'])
            ta = t
            tb = NUM[r.randint(0, RANK[t])]
            if o.logic_float and r.random() < 0.15 and t == '&':
                ta = r.choice('!#')
            if r.random() < 0.5:
                ta, tb = tb, ta
            a = ('par', self.nexpr(sc, ta, depth - 1))
            b = ('par', self.nexpr(sc, tb, depth - 1))
            e = ('bin', op, a, b)
            if etype(e) != t:
                return self.atom(sc, t)
            self.features.add('logic-op')
            return e
        if p < 0.78 and t == '%':
            return ('par', self.cond(sc, depth - 1))
        if p < 0.83:
            a = self.nexpr(sc, t, depth - 1)
            return ('un', '-', ('par', a))
        if p < 0.86 and t in '%&':
            ta = t if r.random() < 0.8 or not o.logic_float else r.choice('!#' if t == '&' else '%')
            e = ('un', 'NOT', ('par', self.nexpr(sc, ta, depth - 1)))
            if etype(e) != t:
                return self.atom(sc, t)
            return e
        if p < 0.97 and self.o.builtins:
            e = self.builtin_num(sc, t, depth - 1)
            if e is not None:
                return e
        if self.o.procs and not self.in_function:
            fs = [p_ for p_ in self.procs if p_['kind'] == 'function' and p_['rtype'] == t]
            if fs:
                f = r.choice(fs)
                return self.ucall(sc, f, depth - 1)
        return self.atom(sc, t)

    def paren_if_needed(self, e, right=False):
        if e[0] in ('bin',):
            return ('par', e)
        if e[0] == 'un':
            return ('par', e)
        return e

    def builtin_num(self, sc, t, depth):
        r = self.r
        if t == '%':
            c = r.choice(['ASC', 'CINT', 'ABS'])
            if c == 'ASC':
                return ('bcall', 'ASC', [self.sexpr(sc, depth)])
            if c == 'CINT':
                return ('bcall', 'CINT', [self.nexpr(sc, self.numt(), depth)])
            return ('bcall', 'ABS', [self.nexpr(sc, '%', depth)])
        if t == '&':
            c = r.choice(['LEN', 'INSTR', 'INT', 'CLNG', 'ABS', 'LBOUND', 'UBOUND'])
            if c == 'LEN':
                return ('bcall', 'LEN', [self.sexpr(sc, depth)])
            if c == 'INSTR':
                if r.random() < 0.5:
                    return ('bcall', 'INSTR', [self.sexpr(sc, depth), self.sexpr(sc, 0)])
                return ('bcall', 'INSTR', [('lit', '%', r.choice([1, 2, 3])), self.sexpr(sc, depth),
                                           self.sexpr(sc, 0)])
            if c == 'INT':
                return ('bcall', 'INT', [self.nexpr(sc, r.choice('!#!#%&'), depth)])
            if c == 'CLNG':
                return ('bcall', 'CLNG', [self.nexpr(sc, self.numt(), depth)])
            if c in ('LBOUND', 'UBOUND'):
                arrs = sc.arrays + (self.shared.arrays if sc is not self.shared else [])
                if arrs:
                    n, et, dims, dyn = r.choice(arrs)
                    args = [('arr', n)]
                    if len(dims) > 1 or r.random() < 0.3:
                        args.append(('lit', '%', r.randint(1, len(dims))))
                    return ('bcall', c, args)
                return None
            return ('bcall', 'ABS', [self.nexpr(sc, '&', depth)])
        if t == '!':
            c = r.choice(['ABS', 'RND', 'TIMER'])
            if c == 'RND' and self.o.rnd:
                self.features.add('rnd')
                return ('bcall', 'RND', []) if r.random() < 0.6 else ('bcall', 'RND', [('lit', '%', 1)])
            if c == 'TIMER' and self.o.rnd:
                return ('bcall', 'TIMER', [])
            return ('bcall', 'ABS', [self.nexpr(sc, '!', depth)])
        if t == '#':
            c = r.choice(['ABS', 'VAL'])
            if c == 'VAL':
                return ('bcall', 'VAL', [('lit', '$', r.choice(['12', '3.5', '-7', '1e2', '', 'abc', ' 42 ']))])
            return ('bcall', 'ABS', [self.nexpr(sc, '#', depth)])
        return None

    def sexpr(self, sc, depth):
        r = self.r
        if depth <= 0 or r.random() < 0.35:
            return self.atom(sc, '$')
        p = r.random()
        if p < 0.3 or not self.o.builtins:
            return ('bin', '+', self.sexpr(sc, depth - 1), self.sexpr(sc, depth - 1))
        c = r.choice(['LEFT$', 'RIGHT$', 'MID$', 'MID$3', 'UCASE$', 'LCASE$', 'LTRIM$', 'RTRIM$', 'STR$',
                      'CHR$', 'SPACE$', 'STRING$', 'STRING$s'])
        s = self.sexpr(sc, depth - 1)
        small = ('lit', '%', r.choice([0, 1, 2, 3, 5, 20]))
        if c in ('LEFT$', 'RIGHT$'):
            return ('bcall', c, [s, small])
        if c == 'MID$':
            return ('bcall', 'MID$', [s, ('lit', '%', r.choice([1, 2, 3, 9]))])
        if c == 'MID$3':
            return ('bcall', 'MID$', [s, ('lit', '%', r.choice([1, 2, 4])), small])
        if c in ('UCASE$', 'LCASE$', 'LTRIM$', 'RTRIM$'):
            return ('bcall', c, [s])
        if c == 'STR$':
            return ('bcall', 'STR$', [self.nexpr(sc, r.choice('%&'), depth - 1)])
        if c == 'CHR$':
            return ('bcall', 'CHR$', [('lit', '%', r.choice([65, 66, 97, 48, 32, 126]))])
        if c == 'SPACE$':
            return ('bcall', 'SPACE$', [small])
        if c == 'STRING$':
            return ('bcall', 'STRING$', [small, ('lit', '%', r.choice([65, 42, 120]))])
        return ('bcall', 'STRING$', [small, ('lit', '$', r.choice(['x', 'ab', '*']))])

    def cond(self, sc, depth=1):
        """INTEGER-typed boolean expression (-1 / 0)."""
        r = self.r
        p = r.random()
        if p < 0.15 and self.o.string_cmp:
            op = r.choice(['=', '<>', '<', '>', '<=', '>='])
            self.features.add('string-compare')
            return ('bin', op, self.sexpr(sc, min(depth, 1)), self.sexpr(sc, 0))
        if p < 0.85 or depth <= 0:
            op = r.choice(['=', '<>', '<', '>', '<=', '>='])
            ta, tb = self.numt(), self.numt()
            a = self.paren_if_needed(self.nexpr(sc, ta, min(depth, 1)))
            b = self.paren_if_needed(self.nexpr(sc, tb, 0), right=True)
            return ('bin', op, a, b)
        op = r.choice(['AND', 'OR'])
        return ('bin', op, ('par', self.cond(sc, depth - 1)), ('par', self.cond(sc, depth - 1)))

    def ucall(self, sc, f, depth):
        args = self.call_args(sc, f, depth)
        if args is None:
            return self.atom(sc, f['rtype'])
        self.features.add('function-call')
        return ('ucall', f['name'], args, f['rtype'])

    def call_args(self, sc, f, depth):
        r = self.r
        args = []
        for pname, pt, isarr in f['params']:
            if isarr:
                arrs = [a for a in sc.arrays + (self.shared.arrays if sc is not self.shared else [])
                        if a[1] == pt and len(a[2]) == isarr]
                if not arrs:
                    return None
                args.append(('arr', r.choice(arrs)[0]))
                continue
            if isinstance(pt, tuple):
                recs = [('var', n_, ('rec', tn_)) for n_, tn_ in sc.records + (self.shared.records if sc is not self.shared else [])
                        if tn_ == pt[1]]
                for n_, et, dims, dyn in sc.arrays + (self.shared.arrays if sc is not self.shared else []):
                    if et == pt:
                        recs.append(('elem', n_, et, [self.index_expr(sc, lb, ub) for lb, ub in dims]))
                if not recs:
                    return None
                args.append(r.choice(recs))
                self.features.add('byref-record')
                continue
            lvs = self.lvalues_of(sc, pt)
            if lvs and r.random() < 0.6:
                lv = r.choice(lvs)
                self.features.add('byref-' + lv[0])
                args.append(lv)
            elif self.o.byval_args:
                e = self.expr(sc, pt, min(depth, 1))
                if lvs and r.random() < 0.35:
                    # the usual force-by-value idioms: x + 0, x * 1, "" + s$
                    lv = r.choice(lvs)
                    if pt == '$':
                        e = ('bin', '+', lv, ('lit', '$', '')) if r.random() < 0.5 else ('bin', '+', ('lit', '$', ''), lv)
                    elif r.random() < 0.5:
                        e = ('bin', '+', lv, ('lit', pt, 0 if pt in '%&' else 0.0))
                    else:
                        e = ('bin', '*', lv, ('lit', pt, 1 if pt in '%&' else 1.0))
                    self.features.add('byval-identity')
                elif lvs and r.random() < 0.3:
                    # (x), (a(i)), (r.f): parentheses make any lvalue an expression
                    e = r.choice(lvs)
                if e[0] in ('var', 'elem', 'fld'):
                    e = ('par', e)
                    self.features.add('byval-paren')
                args.append(e)
            else:
                args.append(self.lit(pt))
        return args

    # ------------------------------------------------------------------ declarations
    def declare_some(self, sc, body, n_scalars=4):
        r = self.r
        o = self.o
        for _ in range(n_scalars):
            t = self.anyt()
            nm = self.fresh('v')
            if r.random() < 0.3:
                body.append(['dim', 'dim', nm, t, None])       # DIM zv1 AS LONG
                sc.scalars.append((nm, t))
            else:
                sc.scalars.append((nm + t, t))                  # implicit, suffixed
        if o.arrays and r.random() < 0.7:
            for _ in range(r.randint(1, 2)):
                self.declare_array(sc, body)
        if o.records and self.types and r.random() < 0.6:
            tn = r.choice(self.types)[0]
            nm = self.fresh('r')
            body.append(['dim', 'dim', nm, ('rec', tn), None])
            sc.records.append((nm, tn))
            self.features.add('record-var')
        if o.consts and r.random() < 0.5:
            t = self.anyt()
            nm = self.fresh('c')
            e = self.const_expr(sc, t)
            body.append(['const', nm + t, e])
            sc.consts.append((nm + t, t))
            self.features.add('const')

    def const_expr(self, sc, t):
        r = self.r
        if t == '$':
            if r.random() < 0.3:
                return ('bin', '+', self.lit('$'), self.lit('$'))
            return self.lit('$')
        a = self.lit(t)
        if r.random() < 0.4:
            prev = [c for c in sc.consts + self.shared.consts if c[1] == t]
            b = ('var',) + r.choice(prev) if prev and r.random() < 0.5 else ('lit', t, r.choice([1, 2, 3]) if t in '%&' else 1.5)
            # a CONST whose expression overflows is a compile-time matter in QBASIC and a use-time one here: not generated
            op = '-' if (a[2] > 1000 or b[0] == 'var') else r.choice(['+', '-'])
            return ('bin', op, a, b)
        return a

    def declare_array(self, sc, body, scope_kw='dim'):
        r = self.r
        et = self.anyt()
        if self.o.records and self.types and r.random() < 0.25:
            et = ('rec', r.choice(self.types)[0])
            self.features.add('array-of-records')
        rank = r.choice([1, 1, 1, 2, 2, 3])
        dims = []
        for _ in range(rank):
            lb = r.choice([0, 0, 1, 1, -2, 5])
            ub = lb + r.randint(0, 3)
            dims.append((lb, ub))
        dyn = self.o.dynamic_arrays and r.random() < 0.25 and scope_kw == 'dim' and bool(self.vars_of(sc, '%'))
        nm = self.fresh('a')
        rn = nm + (et if isinstance(et, str) and r.random() < 0.6 else '')
        explicit_lb = r.random() < 0.5
        dexprs = []
        for lb, ub in dims:
            lbe = self.int_lit(lb)
            ube = self.int_lit(ub)
            if r.random() < 0.15:
                # fractional constant bound: the declared bound is the rounded value; a .5 tie goes to the even neighbour, so
                # ties are only written next to an even bound (where they round back to it)
                fr = r.choice([-0.3, 0.4, 0.3, -0.4] + ([0.5, -0.5] if ub % 2 == 0 else []))
                v = ub + fr
                ube = ('lit', '!', abs(v)) if v >= 0 else ('un', '-', ('lit', '!', abs(v)))
                self.features.add('fractional-bound')
            if r.random() < 0.1 and (explicit_lb or lb != 0):
                fr = r.choice([-0.3, 0.4] + ([0.5, -0.5] if lb % 2 == 0 else []))
                v = lb + fr
                lbe = ('lit', '!', abs(v)) if v >= 0 else ('un', '-', ('lit', '!', abs(v)))
                self.features.add('fractional-lower-bound')
            if dyn:
                x = r.choice(self.vars_of(sc, '%'))
                ube = ('bin', '+', ube, ('par', ('bin', '-', x, x)))
            dexprs.append((lbe if (explicit_lb or lb != 0) else None, ube))
        body.append(['dim', scope_kw, rn, et, dexprs])
        tgt = self.shared if scope_kw == 'shared' else sc
        tgt.arrays.append((rn, et, dims, dyn))
        self.features.add(f'array-rank{rank}' + ('-dyn' if dyn else ''))
        if any(lb != 0 for lb, _ in dims):
            self.features.add('array-lbound')

    def int_lit(self, v):
        e = ('lit', '%', abs(v))
        return ('un', '-', e) if v < 0 else e

    def make_types(self):
        r = self.r
        n = r.randint(1, 2)
        for _ in range(n):
            tn = self.fresh('T')
            fields = []
            for _ in range(r.randint(1, 4)):
                ft = self.anyt()
                if self.o.nested_records and self.types and r.random() < 0.25:
                    ft = ('rec', r.choice(self.types)[0])
                    self.features.add('nested-record')
                fields.append((self.fresh('f'), ft))
            self.types.append((tn, fields))

    # ------------------------------------------------------------------ statements
    def tag(self):
        self.tagn += 1
        return self.tagn

    def tagged(self, e, t):
        """With the tags option: add the statement's unique non-foldable tag (ztz% reads 0) to a numeric expression."""
        if self.o.tags and t != '$':
            return ('bin', '+', ('par', e), ('bin', '*', ('var', 'ztz%', '%'), ('lit', '&', self.tag() + 40000)))
        return e

    def simple_stmt(self, sc):
        r = self.r
        o = self.o
        p = r.random()
        if o.tags:
            p = p * 0.72   # only PRINT / LET / CALL-like tagged statements
        if self.in_function:
            p = p * 0.36   # FUNCTIONs perform no I/O (evaluation order inside PRINT is a grey zone)
        if p < 0.36:
            t = self.anyt()
            lvs = self.lvalues_of(sc, t)
            if not lvs and self.in_function:
                t = '%'
                lvs = [('var', 'zdepth%', '%')]
            if not lvs:
                return self.print_stmt(sc)
            lv = r.choice(lvs)
            if t == '$':
                e = self.sexpr(sc, o.expr_depth)
            else:
                e = self.nexpr(sc, self.numt() if r.random() < 0.4 else t, o.expr_depth)
            if o.tags and t != '$':
                # unique, non-foldable tag: ztz% is never assigned (reads 0), the push& operand names the statement
                e = ('bin', '+', ('par', e), ('bin', '*', ('var', 'ztz%', '%'), ('lit', '&', self.tag() + 40000)))
            return ['let', lv, e, r.random() < 0.1]
        if p < 0.66:
            return self.print_stmt(sc)
        if p < 0.72 and o.procs and not self.in_function:
            subs = [p_ for p_ in self.procs if p_['kind'] == 'sub']
            if subs:
                f = r.choice(subs)
                cargs = self.call_args(sc, f, 1)
                if cargs is not None:
                    self.features.add('sub-call')
                    return ['call', f['name'], cargs, r.random() < 0.5]
            return self.print_stmt(sc)
        if p < 0.78 and o.data and self.data_items and not self.in_function:
            return self.read_stmt(sc)
        if p < 0.83 and o.input and not self.in_function:
            return self.input_stmt(sc)
        if p < 0.90 and o.devices and not self.in_function:
            return self.device_stmt(sc)
        if p < 0.93 and o.data and not self.in_function:
            return ['restore', None]
        return self.print_stmt(sc)

    def print_stmt(self, sc):
        r = self.r
        items = []
        n = r.choice([0, 1, 1, 1, 2, 2, 3, 4])
        if self.o.tags:
            items.append(['e', ('lit', '&', self.tag() + 40000)])
            items.append(';')
        for i in range(n):
            if r.random() < 0.08:
                items.append(r.choice([';', ',']))
            items.append(['e', self.expr(sc, self.anyt())])
            if i < n - 1:
                items.append(r.choice([';', ';', ',', ';']))
        if n and r.random() < 0.2:
            items.append(r.choice([';', ',']))
        if self.o.print_using and n and r.random() < 0.2:
            pass
        return ['print', items]

    def read_stmt(self, sc):
        r = self.r
        n = r.randint(1, 3)
        lvs = []
        for _ in range(n):
            i = self.data_cursor_hint
            kind = self.data_items[i % len(self.data_items)][1] if self.data_items else 'n'
            self.data_cursor_hint += 1
            if kind == 's' or r.random() < 0.2:
                t = '$'
            else:
                t = r.choice('%&!#') if kind == 'i' else r.choice('!#')
            c = self.lvalues_of(sc, t)
            if not c:
                break
            lvs.append(r.choice(c))
        if not lvs:
            return self.print_stmt(sc)
        self.features.add('read')
        return ['read', lvs]

    def input_stmt(self, sc):
        r = self.r
        n = r.choice([1, 1, 2, 3])
        lvs = []
        for _ in range(n):
            t = self.anyt()
            c = self.lvalues_of(sc, t)
            if c:
                lvs.append(r.choice(c))
        if not lvs:
            return self.print_stmt(sc)
        prompt = r.choice([None, None, 'Value', 'Enter x: '])
        sep = r.choice([';', ',']) if prompt is not None else None
        self.features.add('input')
        return ['input', prompt, sep, lvs]

    def device_stmt(self, sc):
        r = self.r
        c = r.choice(['CLS', 'BEEP', 'COLOR', 'LOCATE', 'SOUND', 'PLAY', 'RANDOMIZE', 'POKE', 'VIEWPRINT',
                      'WIDTH', 'SCREEN', 'DEFSEG'])
        self.features.add('dev-' + c)
        e = lambda t, vals: ('lit', t, r.choice(vals))  # noqa: E731
        if c == 'CLS':
            return ['dev', 'CLS', []]
        if c == 'BEEP':
            return ['dev', 'BEEP', []]
        if c == 'COLOR':
            k = r.choice([1, 2, 3])
            return ['dev', 'COLOR', [e('%', [0, 7, 14]) for _ in range(k)]]
        if c == 'LOCATE':
            return ['dev', 'LOCATE', [e('%', [1, 5, 10]), e('%', [1, 20, 40])]]
        if c == 'SOUND':
            return ['dev', 'SOUND', [e('%', [440, 1000, 37]), e('%', [1, 5, 18])]]
        if c == 'PLAY':
            return ['dev', 'PLAY', [('lit', '$', 'cde')]]
        if c == 'RANDOMIZE':
            return ['dev', 'RANDOMIZE', [e('%', [1, 42])]]
        if c == 'POKE':
            return ['dev', 'POKE', [e('%', [100, 1047]), e('%', [0, 65, 255])]]
        if c == 'VIEWPRINT':
            return ['dev', 'VIEWPRINT', [e('%', [1, 2]), e('%', [20, 25])]]
        if c == 'WIDTH':
            return ['dev', 'WIDTH', [e('%', [40, 80]), e('%', [25, 43, 50])]]
        if c == 'SCREEN':
            return ['dev', 'SCREEN', [e('%', [0, 1, 12])]]
        return ['dev', 'DEFSEG', [e('&', [0, 47104])] if r.random() < 0.7 else []]

    def block(self, sc, n, depth):
        out = []
        for _ in range(n):
            out.extend(self.stmt(sc, depth))
        return out

    def counter(self, sc):
        nm = self.fresh('k') + '%'
        return nm

    def stmt(self, sc, depth):
        """-> list of statements (a compound may need a preceding initialisation)."""
        r = self.r
        o = self.o
        if depth <= 0 or r.random() < 0.55:
            return [self.simple_stmt(sc)]
        p = r.random()
        nb = lambda: r.choice([0, 1, 1, 2, 2, 3])  # noqa: E731
        if p < 0.22:
            arms = [(self.cond(sc), self.block(sc, nb(), depth - 1))]
            for _ in range(r.choice([0, 0, 1, 2])):
                arms.append((self.cond(sc), self.block(sc, nb(), depth - 1)))
            els = self.block(sc, nb(), depth - 1) if r.random() < 0.5 else None
            self.features.add('if-block')
            return [['if', arms, els]]
        if p < 0.32:
            th = [self.simple_stmt(sc) for _ in range(r.choice([1, 1, 2]))]
            el = [self.simple_stmt(sc) for _ in range(r.choice([1, 1, 2]))] if r.random() < 0.4 else None
            th = [s for s in th if self.ok_in_ifline(s)] or [['print', [['e', ('lit', '%', 1)]]]]
            if el is not None:
                el = [s for s in el if self.ok_in_ifline(s)] or None
            if el is not None:
                # a PRINT ending in a separator directly before ELSE is a syntax error in qbee's grammar
                last = th[-1]
                if last[0] == 'print' and last[1] and last[1][-1] in (';', ','):
                    last[1].pop()
                if last[0] == 'print' and not last[1]:
                    last[1].append(['e', ('lit', '%', 0)])
            self.features.add('if-line' + ('-else' if el else ''))
            return [['ifline', self.cond(sc), th, el]]
        if p < 0.50:
            return self.for_stmt(sc, depth)
        if p < 0.60:
            k = self.counter(sc)
            lim = r.randint(1, 3)
            body = self.block(sc, nb(), depth - 1)
            body.append(['let', ('var', k, '%'), ('bin', '+', ('var', k, '%'), ('lit', '%', 1)), False])
            self.features.add('while')
            return [['let', ('var', k, '%'), ('lit', '%', 0), False],
                    ['while', ('bin', '<', ('var', k, '%'), ('lit', '%', lim)), body]]
        if p < 0.74:
            k = self.counter(sc)
            lim = r.randint(1, 3)
            kind = r.choice(['pre_while', 'pre_until', 'post_while', 'post_until', 'forever'])
            body = self.block(sc, nb(), depth - 1)
            inc = ['let', ('var', k, '%'), ('bin', '+', ('var', k, '%'), ('lit', '%', 1)), False]
            kv = ('var', k, '%')
            if kind in ('pre_while', 'post_while'):
                c = ('bin', '<', kv, ('lit', '%', lim))
                body.append(inc)
            elif kind in ('pre_until', 'post_until'):
                c = ('bin', '>=', kv, ('lit', '%', lim))
                if o.do_until_int and r.random() < 0.3:
                    # non-boolean truthy condition: k% - lim  is 0 exactly when ... use (lim - k) = 0 -> loop until k reaches lim
                    # UNTIL x : loop ends when x <> 0.  x = k% \ lim is 0 while k < lim, then 1
                    c = ('bin', '\\', kv, ('lit', '%', lim))
                    self.features.add('until-nonboolean')
                body.append(inc)
            else:
                c = None
                body.append(inc)
                body.append(['ifline', ('bin', '>=', kv, ('lit', '%', lim)), [['exitdo']], None])
                if o.exit_stmts is False:
                    kind = 'pre_while'
                    c = ('bin', '<', kv, ('lit', '%', lim))
                    body.pop()
            self.features.add('do-' + kind)
            return [['let', kv, ('lit', '%', 0), False], ['do', kind, c, body]]
        if p < 0.86 and o.select:
            return [self.select_stmt(sc, depth)]
        if p < 0.93 and o.gosub and sc.kind == 'main' and self.gosubs is not None:
            lbl = self.new_label()
            body = self.block(sc, r.choice([1, 2]), 0)
            self.gosubs.append((lbl, body))
            self.features.add('gosub')
            return [['gosub', lbl]]
        if p < 0.97 and o.gosub and sc.kind == 'main':
            lbl = self.new_label()
            skipped = self.block(sc, r.choice([1, 2]), 0)
            self.features.add('goto-forward')
            return [['goto', lbl]] + skipped + [['label', lbl]]
        return [self.simple_stmt(sc)]

    def ok_in_ifline(self, s):
        return s[0] in ('let', 'print', 'call', 'dev', 'read', 'restore', 'exitfor', 'exitdo')

    def new_label(self):
        self.labels += 1
        if self.r.random() < 0.3:
            return str(100 * self.labels)
        return f'zl{self.labels}'

    def for_stmt(self, sc, depth):
        r = self.r
        o = self.o
        t = r.choice('%%%&!#') if o.for_float else r.choice('%%&')
        nm = self.fresh('i') + t
        sc.scalars.append((nm, t))
        sc.loopvars.add(nm)
        v = ('var', nm, t)
        if t in '%&':
            a = r.randint(-3, 5)
            n = r.randint(0, 4)
            step = r.choice([None, None, 1, 2, -1, -2, 3])
            s = step or 1
            b = a + s * n - (0 if r.random() < 0.7 else (1 if s > 0 else -1))
            if r.random() < 0.1:
                b = a - s          # zero iterations
            if o.big_values and r.random() < 0.06 and t == '%':
                a, b, step = 32765, 32767, None    # increment overflows at the end
                self.features.add('for-near-limit')
            fe = self.int_lit(a) if t == '%' else ('lit', '&', a) if a >= 0 else ('un', '-', ('lit', '&', -a))
            te = self.int_lit(b)
            se = None if step is None else self.int_lit(step)
        else:
            a = r.choice([0.0, 0.5, 1.0, -1.0])
            step = r.choice([None, 0.5, 0.25, -0.5, 1.5])
            s = step or 1.0
            n = r.randint(0, 4)
            b = a + s * n
            fl = lambda x: ('lit', t, abs(x)) if x >= 0 else ('un', '-', ('lit', t, abs(x)))  # noqa: E731
            fe, te, se = fl(a), fl(b), (None if step is None else fl(step))
            self.features.add('for-float')
        body = self.block(sc, r.choice([0, 1, 1, 2, 3]), depth - 1)
        if o.exit_stmts and r.random() < 0.15:
            body.append(['ifline', self.cond(sc), [['exitfor']], None])
            self.features.add('exit-for')
        sc.loopvars.discard(nm)
        self.features.add('for')
        return [['for', v, fe, te, se, body, r.random() < 0.5]]

    def select_stmt(self, sc, depth):
        r = self.r
        if r.random() < 0.25:
            t = '$'
            sel = self.sexpr(sc, 1)
        else:
            t = r.choice('%%&!#')
            sel = self.nexpr(sc, t, 1)
        cases = []
        for _ in range(r.randint(1, 3)):
            items = []
            for _ in range(r.choice([1, 1, 2])):
                p = r.random()
                # case values are never wider than the selector (how a narrower selector compares with a wider
                # case value is dialect-dependent) and never fractional against an integral selector
                if t == '$':
                    ct = '$'
                else:
                    ct = NUM[r.randint(0, RANK[t])] if r.random() < 0.5 else t
                    if t in '%&' and ct not in '%&':
                        ct = t
                mk = (lambda: self.lit(ct))
                if p < 0.6:
                    items.append(['v', mk()])
                elif p < 0.8:
                    a, b = mk(), mk()
                    items.append(['range', a, b])
                else:
                    items.append(['is', r.choice(['<', '>', '<=', '>=', '<>', '=']), mk()])
            cases.append((items, self.block(sc, r.choice([0, 1, 2]), depth - 1)))
        els = self.block(sc, r.choice([0, 1, 2]), depth - 1) if r.random() < 0.5 else None
        self.features.add('select-' + ('str' if t == '$' else 'num'))
        return ['select', sel, cases, els]

    # ------------------------------------------------------------------ procedures
    def make_proc(self):
        r = self.r
        o = self.o
        kind = r.choice(['sub', 'function'])
        name = self.fresh('p')
        rtype = self.anyt() if kind == 'function' else None
        sc = Scope(kind, name)
        params = []
        for _ in range(r.randint(0, 3)):
            pt = self.anyt()
            pn = self.fresh('q')
            style = r.random() < 0.5
            rn = pn if style else pn + pt       # "zq1 AS LONG" or "zq1&"
            params.append((rn, pt, 0, style))
            sc.scalars.append((rn, pt))
        if o.records and self.types and r.random() < 0.3:
            tn = r.choice(self.types)[0]
            pn = self.fresh('q')
            params.append((pn, ('rec', tn), 0, True))
            sc.records.append((pn, tn))
            self.features.add('record-param')
        if o.arrays and self.shared.arrays and r.random() < 0.25:
            a = r.choice(self.shared.arrays)
            if isinstance(a[1], str):
                pn = self.fresh('q')
                rn = pn + a[1]
                params.append((rn, a[1], len(a[2]), False))
                sc.arrays.append((rn, a[1], a[2], True))
                self.features.add('array-param')
        body = []
        static = o.static_vars and r.random() < 0.2
        if o.static_vars and r.random() < 0.4:
            st = self.anyt()
            sn = self.fresh('s') + st
            body.append(['dim', 'static', sn, st, None])
            sc.scalars.append((sn, st))
            self.features.add('static-var')
        self.declare_some(sc, body, n_scalars=r.randint(0, 2))
        proc = {'kind': kind, 'name': name + (rtype if kind == 'function' else ''), 'rtype': rtype,
                'params': [(p[0], p[1], p[2]) for p in params], 'pstyle': [p[3] for p in params],
                'static': static, 'body': body, 'scope': sc}
        self.in_function = (kind == 'function')
        saved = self.gosubs
        self.gosubs = None
        n = r.randint(1, 4)
        body.extend(self.block(sc, n, min(1, o.max_depth)))
        # recursion guarded by a shared depth counter
        if r.random() < 0.3 and kind == 'sub' and not params:
            self.features.add('recursion')
            d = ('var', 'zdepth%', '%')
            body.append(['if', [(('bin', '<', d, ('lit', '%', r.choice([1, 2, 3]))),
                                 [['let', d, ('bin', '+', d, ('lit', '%', 1)), False],
                                  ['call', proc['name'], [], True]])], None])
            self.need_depth = True
        if kind == 'function':
            if o.exit_stmts and r.random() < 0.2:
                body.append(['ifline', self.cond(sc), [['let', ('var', proc['name'], rtype), self.tagged(self.expr(sc, rtype, 1), rtype), False], ['exitfunction']], None])
            body.append(['let', ('var', proc['name'], rtype), self.tagged(self.expr(sc, rtype, 1), rtype), False])
        elif o.exit_stmts and r.random() < 0.2:
            nd = max([i for i, x in enumerate(body) if x[0] in ('dim', 'const')] + [-1]) + 1
            body.insert(r.randint(nd, len(body)), ['ifline', self.cond(sc), [['exitsub']], None])
        for pn_, pt_, _a, _s in params:
            if isinstance(pt_, tuple):
                # several accesses to (also non-first) fields of a by-reference record in one activation
                base = ('var', pn_, pt_)
                flds = []
                for ft in '%&!#$':
                    flds += self.fields_of(base, pt_[1], ft)
                r.shuffle(flds)
                pos = max([i for i, x in enumerate(body) if x[0] in ('dim', 'const')] + [-1]) + 1
                extra = []
                for f_ in flds[:3]:
                    extra.append(['let', f_, self.lit(f_[3]), False])
                if kind == 'sub':
                    extra.append(['print', sum(([['e', f_], ';'] for f_ in flds[:3]), [])[:-1]])
                else:
                    for f_ in flds[:2]:
                        extra.append(['let', f_, f_, False])
                body[pos:pos] = extra
        self.gosubs = saved
        self.in_function = False
        self.procs.append(proc)

    # ------------------------------------------------------------------ program
    def program(self):
        r = self.r
        o = self.o
        self.need_depth = False
        main = Scope('main', '_main')
        head = []
        deft = None
        if o.defint and r.random() < 0.3:
            deft = r.choice(['DEFINT', 'DEFLNG', 'DEFDBL', 'DEFSNG'])
            self.features.add('deftype')
        if o.records and r.random() < 0.6:
            self.make_types()
        # shared declarations
        shared_body = []
        if r.random() < 0.7:
            for _ in range(r.randint(1, 3)):
                t = self.anyt()
                nm = self.fresh('g')
                if r.random() < 0.5:
                    shared_body.append(['dim', 'shared', nm, t, None])
                    self.shared.scalars.append((nm, t))
                else:
                    shared_body.append(['dim', 'shared', nm + t, t, None])
                    self.shared.scalars.append((nm + t, t))
            if o.arrays and r.random() < 0.5:
                self.declare_array(self.shared, shared_body, scope_kw='shared')
            if o.records and self.types and r.random() < 0.4:
                tn = r.choice(self.types)[0]
                nm = self.fresh('r')
                shared_body.append(['dim', 'shared', nm, ('rec', tn), None])
                self.shared.records.append((nm, tn))
            self.features.add('shared')
        if o.consts and r.random() < 0.4:
            t = self.anyt()
            nm = self.fresh('c') + t
            shared_body.append(['const', nm, self.const_expr(self.shared, t)])
            self.shared.consts.append((nm, t))     # module-level consts are visible everywhere
        # DATA
        data_stmts = []
        if o.data and r.random() < 0.5:
            for _ in range(r.randint(1, 3)):
                items = []
                for _ in range(r.randint(1, 4)):
                    k = r.choice('iiffs')
                    if k == 'i':
                        txt = str(r.choice([0, 1, 7, 42, 300, -5, 32767]))
                    elif k == 'f':
                        txt = r.choice(['1.5', '0.25', '-2.5', '100.125', '3'])
                        k = 'f'
                    else:
                        txt = r.choice(['abc', '"quoted, text"', 'two words', '""', 'x'])
                    items.append(txt)
                    self.data_items.append((txt, k))
                data_stmts.append(['data', items])
            self.features.add('data')
        # procedures are generated before main body so main can call them; they only see shared
        if o.procs:
            for _ in range(r.choice([0, 1, 1, 2, 3])):
                self.make_proc()
        body = []
        self.declare_some(main, body)
        if o.seed_vars:
            nums = [v for v in main.scalars if v[1] in NUM]
            r.shuffle(nums)
            for k_, (vn, vt) in enumerate(nums[:3]):
                if k_ == 0 and o.input and vt in '%&':
                    body.append(['input', None, None, [('var', vn, vt)]])
                elif o.rnd:
                    body.append(['let', ('var', vn, vt), ('bin', '*', ('bcall', 'RND', []), ('lit', '!', r.choice([2.0, 10.0, 100.0]))), False])
            self.features.add('seeded-from-script')
        nst = r.randint(max(3, o.max_stmts // 2), o.max_stmts)
        for _ in range(nst):
            body.extend(self.stmt(main, o.max_depth))
            if data_stmts and r.random() < 0.2:
                body.append(data_stmts.pop(0))
        if r.random() < 0.5 or self.gosubs:
            body.append(['end'])
        for lbl, gb in self.gosubs or []:
            body.append(['label', lbl])
            body.extend(gb)
            body.append(['return'])
        body.extend(data_stmts)
        if True:
            shared_body.insert(0, ['dim', 'shared', 'zdepth%', '%', None])
        prog = {'deftype': deft, 'types': self.types, 'main': shared_body + body,
                'procs': [{k: v for k, v in p.items() if k != 'scope'} for p in self.procs],
                'features': sorted(self.features)}
        if o.strip_parens:
            import random as _random
            from . import ir as _ir
            cnt = [0]
            r2 = _random.Random(self.seed * 7 + 3) if hasattr(self, 'seed') else _random.Random(len(body))
            _ir.strip_parens(prog['main'], r2, o.strip_parens, cnt)
            for p_ in prog['procs']:
                _ir.strip_parens(p_['body'], r2, o.strip_parens, cnt)
            if cnt[0]:
                prog['features'] = sorted(set(prog['features']) | {'precedence-implied-grouping'})
            prog['parens_dropped'] = cnt[0]
        return prog


def gen_program(seed, **optkw):
    g = Gen(seed, Opts(**optkw))
    return g.program()
