"""Common driver: generate cases, shard, aggregate, classify, write evidence, exit code.

A check module (qv/checks/cNN.py) provides
  PROP, LEVEL, RULE, ASSUMPTIONS
  gen_cases(tier, seed) -> list of JSON-able case dicts (each with a 'kind')
  run_case(case) -> {'viol': [{'sig':..., 'msg':...}], 'stats': {...}, 'shape': str|None,
                     'nontrivial': bool, 'sample': obj|None}
  REQUIRED_COUNTERS: names of stats counters that must be > 0 (else inconclusive)
  optional finish(agg) -> dict of extra coverage keys
Exit codes: 0 held on what was observed; 1 violation; 2 inconclusive.
"""
import argparse
import hashlib
import importlib
import json
import os
import subprocess
import sys
import time

from . import evidence, findings, pool

VERIF = os.path.dirname(os.path.dirname(os.path.abspath(__file__)))


def ensure_native():
    """Build the arena-cache helper (performance only; see native/arenacache.c)."""
    deps = os.path.join(VERIF, '.deps')
    so = os.path.join(deps, 'arenacache.so')
    src = os.path.join(VERIF, 'native', 'arenacache.c')
    if os.path.exists(so) and os.path.getmtime(so) >= os.path.getmtime(src):
        return True
    os.makedirs(deps, exist_ok=True)
    try:
        subprocess.run(['clang', '-O2', '-shared', '-fPIC', '-o', so + '.tmp', src], check=True,
                       stdout=subprocess.DEVNULL, stderr=subprocess.DEVNULL, timeout=120)
        os.replace(so + '.tmp', so)
        return True
    except Exception:
        return False


def ensure_deps():
    ensure_native()
    deps = os.path.join(VERIF, '.deps')
    if os.path.isdir(os.path.join(deps, 'icontract')):
        return True
    try:
        subprocess.run([pool.PY, '-m', 'pip', 'install', '-q', '--no-index', '--find-links',
                        '/opt/veriftools/wheels', '--target', deps, 'icontract'],
                       check=True, stdout=subprocess.DEVNULL, stderr=subprocess.DEVNULL,
                       timeout=300)
        return True
    except Exception:
        return False


def _hash(obj):
    return hashlib.sha1(json.dumps(obj, sort_keys=True, default=repr).encode()).hexdigest()[:12]


def main(argv=None):
    ap = argparse.ArgumentParser()
    ap.add_argument('check')
    ap.add_argument('--tier', default=os.environ.get('VERIF_TIER', 'quick'))
    ap.add_argument('--replay')
    ap.add_argument('--seed', type=int, default=None)
    ap.add_argument('--max-cases', type=int, default=None)
    ap.add_argument('--sample', type=int, default=None,
                    help='run a seeded random sample of N of the generated cases (development aid: a quick look at every kind of '
                         'case a tier generates; use QV_EVIDENCE_DIR so that the partial run does not replace the evidence file)')
    args = ap.parse_args(argv)
    name = args.check.lower()
    seed = args.seed if args.seed is not None else int(os.environ.get('VERIF_SEED', '0') or 0)
    tier = args.tier if args.tier in ('quick', 'thorough') else 'quick'
    ensure_deps()
    sys.path.insert(0, VERIF)
    mod = importlib.import_module(f'qv.checks.{name}')
    prop = mod.PROP

    if args.replay:
        with open(args.replay) as f:
            rp = json.load(f)
        case = rp['case']
        res, problems = pool.run_sharded(name, [case], shard_timeout=900, nproc=1)
        print(json.dumps(res[0], indent=1, default=repr)[:20000])
        for p in problems:
            print('PROBLEM', p)
        v = (res[0] or {}).get('viol') or []
        sys.exit(1 if v else 0)

    t0 = time.time()
    cases = mod.gen_cases(tier, seed)
    if args.max_cases:
        cases = cases[:args.max_cases]
    if args.sample and args.sample < len(cases):
        import random as _random
        cases = _random.Random(seed * 7 + 1).sample(cases, args.sample)
    timeout = getattr(mod, 'SHARD_TIMEOUT', {}).get(tier, 900 if tier == 'quick' else 7200)
    results, problems = pool.run_sharded(name, cases, shard_timeout=timeout,
                                         pyflags=getattr(mod, 'PYFLAGS', ()))

    known = findings.load(prop)
    stats = {}
    shapes = set()
    samples = []
    viols = []          # (case, v)
    known_hits = {}     # finding id -> count
    harness_errors = []
    timeouts = []
    evaluated = 0
    for case, r in zip(cases, results):
        if r is None:
            continue
        if 'harness_error' in r:
            harness_errors.append((case, r['harness_error']))
            continue
        if 'case_timeout' in r and 'viol' not in r:
            timeouts.append(case)
            continue
        evaluated += 1
        for k, v in (r.get('stats') or {}).items():
            if isinstance(v, (int, float)):
                stats[k] = stats.get(k, 0) + v
            elif isinstance(v, list):
                s = stats.setdefault(k, set())
                s.update(map(str, v))
        if r.get('nontrivial') and r.get('shape') is not None:
            sh = r['shape']
            if isinstance(sh, list):
                shapes.update(map(str, sh))
            else:
                shapes.add(str(sh))
        if r.get('sample') is not None and len(samples) < 6:
            samples.append(r['sample'])
        for v in r.get('viol') or []:
            f = findings.match(known, v['sig'])
            if f is not None:
                known_hits[f['id']] = known_hits.get(f['id'], 0) + 1
            else:
                viols.append((case, v))

    cov_stats = {k: (sorted(v)[:60] if isinstance(v, set) else v) for k, v in stats.items()}
    cov_counts = {k + '_distinct': len(v) for k, v in stats.items() if isinstance(v, set)}
    coverage = {
        'evaluations': evaluated,
        'distinct_nontrivial': len(shapes),
        'rule': mod.RULE,
        'samples': samples or [{'note': 'no sample produced'}],
        'counters': cov_stats,
        **cov_counts,
        'known_findings_observed': known_hits,
        'cases_generated': len(cases),
        'harness_errors': len(harness_errors),
        'case_timeouts': [json.dumps(c)[:300] for c in timeouts[:10]],
        'worker_problems': problems[:5],
    }
    if hasattr(mod, 'finish'):
        try:
            coverage.update(mod.finish(stats, cases, results) or {})
        except Exception as e:  # noqa: BLE001
            problems.append(f'finish() failed: {e!r}')
    if getattr(mod, 'EXHAUSTIVE', {}).get(tier):
        coverage['exhaustive'] = True

    # distinct violations by signature
    by_sig = {}
    for case, v in viols:
        by_sig.setdefault(v['sig'], []).append((case, v))
    rc = 0
    lines = []
    for f in known:
        if f['id'] in known_hits:
            lines.append(f"KNOWN-FINDING: property={prop} {f['id']}: {f['what']} "
                         f"(observed {known_hits[f['id']]}x)")
    if by_sig:
        rc = 1
        os.makedirs(os.path.join(VERIF, 'replays', prop), exist_ok=True)
        for sig, lst in sorted(by_sig.items()):
            case, v = lst[0]
            path = os.path.join(VERIF, 'replays', prop, _hash([sig, case]) + '.json')
            with open(path, 'w') as fh:
                json.dump({'property': prop, 'sig': sig, 'violation': v, 'case': case,
                           'seed': seed, 'tier': tier, 'count': len(lst)}, fh, indent=1,
                          default=repr)
            lines.append(f"VIOLATION property={prop} replay={path}")
            lines.append(f"  sig={sig} count={len(lst)} msg={str(v.get('msg'))[:300]}")
    inconclusive = []
    if rc == 0:
        for c in getattr(mod, 'REQUIRED_COUNTERS', []):
            val = stats.get(c, 0)
            if (len(val) if isinstance(val, set) else val) <= 0:
                inconclusive.append(f'counter {c} is 0: the deciding monitor was never reached')
        if len(shapes) < 2:
            inconclusive.append('fewer than 2 distinct non-trivial cases')
        lost = len(cases) - evaluated
        if lost > 0.2 * max(1, len(cases)):
            inconclusive.append(f'{lost}/{len(cases)} cases could not be evaluated')
        if problems:
            inconclusive.append('worker problems: ' + '; '.join(problems)[:800])
        if len(timeouts) > 0.05 * max(1, len(cases)):
            inconclusive.append(f'{len(timeouts)} cases hit the per-case wall-clock watchdog')
        if harness_errors:
            inconclusive.append(f'{len(harness_errors)} harness errors, first: '
                                + harness_errors[0][1][-600:])
        if inconclusive:
            rc = 2
    wall = time.time() - t0
    coverage['verdict'] = {0: 'held on what was observed', 1: 'violated', 2: 'inconclusive'}[rc]
    coverage['inconclusive_reasons'] = inconclusive
    coverage['violation_sigs'] = sorted(by_sig)[:50]
    evidence.write(prop, tier, seed, mod.LEVEL, coverage, wall, len(viols),
                   assumptions=getattr(mod, 'ASSUMPTIONS', []))
    for ln in lines:
        print(ln)
    for r in inconclusive:
        print(f'INCONCLUSIVE property={prop} reason={r}')
    summary = {k: v for k, v in cov_stats.items() if isinstance(v, (int, float))}
    print(f'{prop} {tier} seed={seed}: cases={len(cases)} evaluated={evaluated} '
          f'distinct={len(shapes)} violations={len(viols)} known={sum(known_hits.values())} '
          f'wall={wall:.1f}s')
    print('  counters: ' + json.dumps(summary)[:1500])
    sys.exit(rc)
