"""RefQB - reference interpreter of the program IR (shares no code with /repo).

Implements documented QBASIC semantics for the generated subset (see DESIGN §3.3 / §6):
typed values, implicit conversions with banker's rounding, overflow checks, \\ and MOD truncating toward zero,
-1/0 comparisons, bitwise logical operators, named-location store with by-reference aliasing, fresh locals per
activation, STATIC and SHARED cells, FOR/WHILE/DO/SELECT, GOSUB stack, DATA cursor, INPUT retry loop.

Output: history (same vocabulary as the recorder), outcome, statement trace (ids of executed statements).
"""
import math
import re
import struct

from ..gen.ir import NUM, RANK, etype, BUILTIN_RT

LIMITS = {'%': (-32768, 32767), '&': (-2 ** 31, 2 ** 31 - 1)}
FMAX = 3.4028234663852886e+38


def skey(s):
    """Ordering key of a string: its code page 437 codes."""
    return s.encode('cp437', 'replace')


class QBError(Exception):
    def __init__(self, kind):
        super().__init__(kind)
        self.kind = kind


class ScriptOut(Exception):
    pass


class _Jump(Exception):
    pass


class ExitFor(_Jump):
    pass


class ExitDo(_Jump):
    pass


class ExitProc(_Jump):
    pass


class Goto(_Jump):
    def __init__(self, label):
        self.label = label


class Return_(_Jump):
    pass


class End_(_Jump):
    pass


def rsingle(x):
    try:
        return struct.unpack('>f', struct.pack('>f', x))[0]
    except OverflowError:
        raise QBError('overflow')


def conv(v, t):
    """Convert a numeric Python value to type t with QBASIC rounding and range checks."""
    if t in '%&':
        if isinstance(v, float):
            if math.isinf(v) or math.isnan(v):
                raise QBError('overflow')
            v = round(v)            # round half to even
        lo, hi = LIMITS[t]
        if v < lo or v > hi:
            raise QBError('overflow')
        return int(v)
    if t == '!':
        v = float(v)
        if math.isinf(v) or math.isnan(v):
            raise QBError('overflow')
        r = rsingle(v)
        if math.isinf(r):
            raise QBError('overflow')
        return r
    if t == '#':
        v = float(v)
        if math.isinf(v) or math.isnan(v):
            raise QBError('overflow')
        return v
    raise ValueError(t)


def default(t):
    if t == '$':
        return ''
    return 0 if t in '%&' else 0.0


class Cell:
    __slots__ = ('t', 'v')

    def __init__(self, t, v=None):
        self.t = t
        self.v = default(t) if v is None else v


class Record:
    def __init__(self, interp, tname):
        self.fields = {}
        for fn, ft in interp.types[tname]:
            self.fields[fn] = Record(interp, ft[1]) if isinstance(ft, tuple) else Cell(ft)


class Array:
    def __init__(self, interp, et, bounds):
        self.et = et
        self.bounds = bounds
        self.interp = interp
        self.elems = {}

    def at(self, idx):
        for i, (lb, ub) in zip(idx, self.bounds):
            if i < lb or i > ub:
                raise QBError('subscript')
        e = self.elems.get(idx)
        if e is None:
            e = Record(self.interp, self.et[1]) if isinstance(self.et, tuple) else Cell(self.et)
            self.elems[idx] = e
        return e


class Frame:
    def __init__(self, proc):
        self.proc = proc
        self.vars = {}       # name -> Cell | Record | Array
        self.gosubs = 0


class Interp:
    def __init__(self, prog, script, lines=None, max_steps=200000):
        self.p = prog
        self.types = {tn: fields for tn, fields in prog['types']}
        self.procs = {pr['name']: pr for pr in prog['procs']}
        self.script = script or {}
        self.inputs = list(self.script.get('input', []))
        self.rnds = list(self.script.get('rnd', []))
        self.timers = list(self.script.get('timer', []))
        self.inkeys = list(self.script.get('inkey', []))
        self.peeks = list(self.script.get('peek', []))
        self.ii = self.ri = self.ti = self.ki = self.pi = 0
        self.h = []
        self.shared = {}
        self.consts = {}
        self.statics = {}        # (proc name, var) -> storage
        self.data = []           # flat items: str or None
        self.label_data = {}     # label -> index into data
        self.cursor = 0
        self.last_rnd = None
        self.steps = 0
        self.max_steps = max_steps
        self.trace = []
        self.cur_stmt = None
        self.err_stmt = None
        self.lines = lines or {}
        self.main = Frame(None)
        self.frames = [self.main]
        self.shared_names = set()
        self._collect_data(prog['main'])

    # ------------------------------------------------------------------ data
    def _collect_data(self, body):
        pending = []
        for s in body:
            if s[0] == 'label':
                pending.append(s[1])
            elif s[0] == 'data':
                for l in pending:
                    self.label_data[l] = len(self.data)
                pending = []
                for txt in s[1]:
                    self.data.append(self._data_item(txt))
        for l in pending:
            self.label_data[l] = len(self.data)

    @staticmethod
    def _data_item(txt):
        t = txt.strip(' ')
        if t == '':
            return None
        if t.startswith('"') and t.endswith('"') and len(t) >= 2:
            return t[1:-1]
        return t

    # ------------------------------------------------------------------ storage
    def frame(self):
        return self.frames[-1]

    def lookup(self, name, t, create=True):
        """Storage object for a name in the current scope."""
        f = self.frame()
        if name in f.vars:
            return f.vars[name]
        if f.proc is not None:
            key = (f.proc['name'], name)
            if key in self.statics:
                return self.statics[key]
        if name in self.shared:
            return self.shared[name]
        if not create:
            raise KeyError(name)
        # implicit scalar
        if f.proc is not None and f.proc.get('static'):
            c = Cell(t)
            self.statics[(f.proc['name'], name)] = c
            return c
        c = Cell(t)
        f.vars[name] = c
        return c

    def loc(self, e):
        """Evaluate an lvalue expression to its Cell (or Record)."""
        k = e[0]
        if k == 'var':
            name, t = e[1], e[2]
            f = self.frame()
            if f.proc is not None and name == f.proc['name'] and f.proc['kind'] == 'function':
                return f.vars.setdefault('__ret__', Cell(f.proc['rtype']))
            if isinstance(t, tuple):
                return self.lookup(name, t)
            return self.lookup(name, t)
        if k == 'elem':
            arr = self.lookup(e[1], None, create=False)
            idx = []
            for ie in e[3]:
                idx.append(conv(self.num(ie), '&'))
            return arr.at(tuple(idx))
        if k == 'fld':
            base = self.loc(e[1])
            return base.fields[e[2]]
        raise ValueError(e)

    # ------------------------------------------------------------------ expressions
    def num(self, e):
        v = self.ev(e)
        return v

    def ev(self, e):
        k = e[0]
        if k == 'lit':
            t, v = e[1], e[2]
            if t == '$':
                return v
            return conv(v, t)
        if k == 'var':
            name = e[1]
            if name in self.frame().vars.get('__consts__', {}):
                return self.frame().vars['__consts__'][name]
            if name in self.consts and name not in self.frame().vars:
                return self.consts[name]
            return self.loc(e).v
        if k in ('elem', 'fld'):
            return self.loc(e).v
        if k == 'par':
            return self.ev(e[1])
        if k == 'un':
            op = e[1]
            t = etype(e[2])
            v = self.ev(e[2])
            if op == '+':
                return v
            if op == '-':
                return conv(-v, t)
            rt = '%' if t == '%' else '&'
            return conv(~conv(v, rt), rt)
        if k == 'bin':
            return self.binop(e)
        if k == 'bcall':
            return self.builtin(e)
        if k == 'ucall':
            return self.call_proc(self.procs[e[1]], e[2])
        raise ValueError(e)

    def binop(self, e):
        op = e[1]
        ta, tb = etype(e[2]), etype(e[3])
        a = self.ev(e[2])
        if ta == '$':
            b = self.ev(e[3])
            if op == '+':
                return a + b
            # strings are sequences of code page 437 characters and are ordered by their codes
            a, b = skey(a), skey(b)
            return -1 if {'=': a == b, '<>': a != b, '<': a < b, '>': a > b, '<=': a <= b, '>=': a >= b}[op] else 0
        rt = etype(e)
        if op in ('=', '<>', '<', '>', '<=', '>='):
            ot = NUM[max(RANK[ta], RANK[tb])]
            a = conv(a, ot)
            b = conv(self.ev(e[3]), ot)
            return -1 if {'=': a == b, '<>': a != b, '<': a < b, '>': a > b, '<=': a <= b, '>=': a >= b}[op] else 0
        if op in ('AND', 'OR', 'XOR', 'EQV', 'IMP', 'MOD', '\\'):
            a = conv(a, rt)
            b = conv(self.ev(e[3]), rt)
            if op == 'AND':
                r = a & b
            elif op == 'OR':
                r = a | b
            elif op == 'XOR':
                r = a ^ b
            elif op == 'EQV':
                r = ~(a ^ b)
            elif op == 'IMP':
                r = ~a | b
            else:
                if b == 0:
                    raise QBError('div0')
                if op == '\\':
                    r = abs(a) // abs(b)
                    if (a < 0) != (b < 0):
                        r = -r
                else:
                    r = abs(a) % abs(b)
                    if a < 0:
                        r = -r
            return conv(r, rt)
        # + - * / ^ : both operands converted to the result type
        a = conv(a, rt)
        b = conv(self.ev(e[3]), rt)
        try:
            if op == '+':
                r = a + b
            elif op == '-':
                r = a - b
            elif op == '*':
                r = a * b
            elif op == '/':
                if b == 0:
                    raise QBError('div0')
                r = a / b
            elif op == '^':
                if isinstance(a, int) and abs(a) > 1 and b > 64:
                    raise QBError('overflow')
                try:
                    r = a ** b
                except ZeroDivisionError:
                    raise QBError('div0')
                if isinstance(r, complex):
                    raise QBError('illegal')
            else:
                raise ValueError(op)
        except OverflowError:
            raise QBError('overflow')
        return conv(r, rt)

    def nxt(self, lst, attr, dflt):
        i = getattr(self, attr)
        setattr(self, attr, i + 1)
        return lst[i] if i < len(lst) else dflt

    def builtin(self, e):
        f, args = e[1], e[2]
        if f == 'RND':
            arg = 1.0
            if args:
                arg = conv(self.ev(args[0]), '!')
            if arg == 0:
                if self.last_rnd is None:
                    self.last_rnd = self._rnd_next()
            elif arg < 0:
                v = (abs(arg) % 97) / 97.0
                self.h.append(['rndseed', arg, v])
                self.last_rnd = v
            else:
                self.last_rnd = self._rnd_next()
            return conv(self.last_rnd, '!')
        if f == 'TIMER':
            v = self.nxt(self.timers, 'ti', 1000.0 + self.ti)
            self.h.append(['timer', v])
            return conv(v, '!')
        if f == 'INKEY$':
            v = self.nxt(self.inkeys, 'ki', '')
            self.h.append(['inkey', v])
            return v
        if f in ('LBOUND', 'UBOUND'):
            arr = self.lookup(args[0][1], None, create=False)
            d = 1
            if len(args) > 1:
                d = conv(self.ev(args[1]), '&')
            if d < 1 or d > len(arr.bounds):
                raise QBError('subscript')
            return arr.bounds[d - 1][0 if f == 'LBOUND' else 1]
        vals = [self.ev(a) for a in args]
        ts = [etype(a) for a in args]
        if f == 'ABS':
            return conv(abs(vals[0]), ts[0])
        if f == 'ASC':
            if vals[0] == '':
                raise QBError('illegal')
            return skey(vals[0][0])[0]          # the character's code in code page 437 (ASC(CHR$(n)) = n)
        if f == 'CHR$':
            c = conv(vals[0], '%')
            if c < 0 or c > 255:
                raise QBError('illegal')
            return bytes([c]).decode('cp437')
        if f == 'CINT':
            return conv(vals[0], '%')
        if f == 'CLNG':
            return conv(vals[0], '&')
        if f == 'INT':
            v = vals[0]
            return conv(math.floor(v), '&')
        if f == 'LEN':
            return len(vals[0])
        if f == 'INSTR':
            if len(vals) == 3:
                start = conv(vals[0], '&')
                s1, s2 = vals[1], vals[2]
            else:
                start, (s1, s2) = 1, vals
            if start <= 0:
                raise QBError('illegal')
            # INSTR is 0 when string1 is empty or start lies beyond its end (also for an empty string2); an empty string2 is
            # otherwise found at start
            if start - 1 >= len(s1):
                return 0
            return s1.find(s2, start - 1) + 1
        if f in ('LEFT$', 'RIGHT$'):
            n = conv(vals[1], '%')
            if n < 0:
                raise QBError('illegal')
            if f == 'LEFT$':
                return vals[0][:n]
            return vals[0][-n:] if n > 0 else ''
        if f == 'MID$':
            start = conv(vals[1], '%')
            if start <= 0:
                raise QBError('illegal')
            if len(vals) == 3:
                n = conv(vals[2], '%')
                if n < 0:
                    raise QBError('illegal')
                return vals[0][start - 1:start - 1 + n]
            return vals[0][start - 1:]
        if f == 'UCASE$':
            # only the 26 letters change case (accented letters of the code page stay as they are)
            return ''.join(chr(ord(c) - 32) if 'a' <= c <= 'z' else c for c in vals[0])
        if f == 'LCASE$':
            return ''.join(chr(ord(c) + 32) if 'A' <= c <= 'Z' else c for c in vals[0])
        if f == 'LTRIM$':
            return vals[0].lstrip(' ')
        if f == 'RTRIM$':
            return vals[0].rstrip(' ')
        if f == 'SPACE$':
            n = conv(vals[0], '%')
            if n < 0:
                raise QBError('illegal')
            return ' ' * n
        if f == 'STR$':
            v = vals[0]
            if ts[0] in '%&':
                return (' ' if v >= 0 else '') + str(v)
            return None     # float rendering is C16's business; the generator only uses integers here
        if f == 'STRING$':
            n = conv(vals[0], '%')
            if n < 0:
                raise QBError('illegal')
            if ts[1] == '$':
                if vals[1] == '':
                    raise QBError('illegal')
                return vals[1][0] * n
            c = conv(vals[1], '%')
            if c < 0 or c > 255:
                raise QBError('illegal')
            return bytes([c]).decode('cp437') * n
        if f == 'VAL':
            m = re.match(r'\s*[+-]?(\d+\.?\d*|\.\d+)([eEdD][+-]?\d+)?', vals[0])
            if not m:
                return 0.0
            return conv(float(m.group(0).strip().replace('d', 'e').replace('D', 'e')), '#')
        raise ValueError(f)

    def _rnd_next(self):
        v = self.nxt(self.rnds, 'ri', 0.5)
        self.h.append(['rnd', v])
        return v

    # ------------------------------------------------------------------ procedures
    def call_proc(self, pr, args):
        fr = Frame(pr)
        # arguments are evaluated left to right; lvalues are passed by reference
        for (pn, pt, isarr), a in zip(pr['params'], args):
            if isarr:
                fr.vars[pn] = self.lookup(a[1], None, create=False)
            elif a[0] in ('var', 'elem', 'fld') and not self._is_const(a):
                fr.vars[pn] = self.loc(a)
            else:
                fr.vars[pn] = Cell(pt, self.assign_conv(self.ev(a), etype(a), pt))
        if len(self.frames) > 60:
            raise QBError('stack')
        self.frames.append(fr)
        caller_stmt = self.cur_stmt
        try:
            try:
                self.run_body(pr['body'])
            except ExitProc:
                pass
            # back in the calling statement: what fails from here on (the rest of its expression, the store) is its error
            self.cur_stmt = caller_stmt
        finally:
            self.frames.pop()
        if pr['kind'] == 'function':
            c = fr.vars.get('__ret__')
            return c.v if c is not None else default(pr['rtype'])
        return None

    def _is_const(self, a):
        return a[0] == 'var' and (a[1] in self.consts or a[1] in self.frame().vars.get('__consts__', {}))

    @staticmethod
    def assign_conv(v, ft, tt):
        if tt == '$' or isinstance(tt, tuple):
            return v
        return conv(v, tt)

    # ------------------------------------------------------------------ statements
    def run(self):
        """-> (history, outcome, trace, error statement key)"""
        outcome = ['halt']
        try:
            try:
                self.run_body(self.p['main'], top=True)
                outcome = ['halt']     # falling off the end of main returns to the halt after the call
            except End_:
                outcome = ['halt']
        except QBError as e:
            outcome = ['error', e.kind]
            self.err_stmt = self.cur_stmt
        except ScriptOut:
            outcome = ['script_exhausted']
        return self.h, outcome, self.trace

    def run_body(self, body, top=False):
        self.run_block(body)

    def run_from_label(self, label):
        """GOSUB: execute the main program from the label until RETURN."""
        body = self.p['main']
        j = self.find_label(body, label)
        if j is None:
            raise ValueError(label)
        try:
            self.run_block(body, start=j)
        except Return_:
            return
        # fell off the end of the program without RETURN: the program simply ends
        raise End_()

    @staticmethod
    def find_label(body, label):
        for j, s in enumerate(body):
            if s[0] == 'label' and s[1] == label:
                return j
        return None

    def tick(self, s):
        self.steps += 1
        if self.steps > self.max_steps:
            raise ScriptOut()
        self.cur_stmt = s
        self.trace.append(id(s))

    def truth(self, e):
        v = self.ev(e)
        return v != 0

    def exec(self, s):
        k = s[0]
        if k in ('label', 'data', 'const_done'):
            return
        self.tick(s)
        if k == 'dim':
            self.do_dim(s)
        elif k == 'const':
            v = self.ev(s[2])
            t = s[1][-1]
            v = self.assign_conv(v, etype(s[2]), t)
            f = self.frame()
            if f.proc is None:
                self.consts[s[1]] = v
            else:
                f.vars.setdefault('__consts__', {})[s[1]] = v
        elif k == 'let':
            lv, e = s[1], s[2]
            v = self.ev(e)
            t = lv[2] if lv[0] != 'fld' else lv[3]
            v = self.assign_conv(v, etype(e), t)
            self.loc(lv).v = v
        elif k == 'print':
            items = []
            for it in s[1]:
                if isinstance(it, str):
                    items.append(it)
                else:
                    v = self.ev(it[1])
                    items.append(['v', etype(it[1]), v])
            self.h.append(['print', items])
        elif k == 'if':
            for ai, (c, b) in enumerate(s[1]):
                self.cur_stmt = ('if', s, ai)      # an error in an ELSEIF condition belongs to the ELSEIF line
                if self.truth(c):
                    self.run_block(b)
                    return
            if s[2] is not None:
                self.run_block(s[2])
        elif k == 'ifline':
            if self.truth(s[1]):
                self.run_block(s[2])
            elif s[3]:
                self.run_block(s[3])
        elif k == 'for':
            self.do_for(s)
        elif k == 'while':
            while self.truth(s[1]):
                self.run_block(s[2])
                self.tick(s)
        elif k == 'do':
            self.do_loop(s)
        elif k == 'select':
            self.do_select(s)
        elif k == 'exitfor':
            raise ExitFor()
        elif k == 'exitdo':
            raise ExitDo()
        elif k in ('exitsub', 'exitfunction'):
            raise ExitProc()
        elif k == 'goto':
            raise Goto(s[1])
        elif k == 'gosub':
            self.run_from_label(s[1])
        elif k == 'return':
            raise Return_()
        elif k == 'end':
            raise End_()
        elif k == 'call':
            self.call_proc(self.procs[s[1]], s[2])
        elif k == 'read':
            for lv in s[1]:
                t = lv[2] if lv[0] != 'fld' else lv[3]
                if self.cursor >= len(self.data):
                    raise QBError('out-of-data')
                item = self.data[self.cursor]
                if t == '$':
                    v = '' if item is None else item
                else:
                    if item is None:
                        v = default(t)
                    else:
                        if not re.fullmatch(r'\s*[+-]?(\d+\.?\d*|\.\d+)([eEdD][+-]?\d+)?\s*', item):
                            raise QBError('read-type')
                        x = float(item.replace('d', 'e').replace('D', 'e')) if not re.fullmatch(r'\s*[+-]?\d+\s*', item) else int(item)
                        v = conv(x, t)
                self.cursor += 1
                self.loc(lv).v = v
        elif k == 'restore':
            self.cursor = 0 if s[1] is None else self.label_data[s[1]]
        elif k == 'input':
            self.do_input(s)
        elif k == 'dev':
            self.do_dev(s)
        else:
            raise ValueError(s)

    def run_block(self, body, start=0):
        i = start
        n = len(body)
        while i < n:
            try:
                self.exec(body[i])
                i += 1
            except Goto as g:
                j = self.find_label(body, g.label)
                if j is None:
                    raise
                i = j

    def do_dim(self, s):
        _, scope, name, t, dims = s
        f = self.frame()
        if dims is None:
            obj = Record(self, t[1]) if isinstance(t, tuple) else Cell(t)
        else:
            bounds = []
            for lb, ub in dims:
                l = 0 if lb is None else conv(self.ev(lb), '&')
                u = conv(self.ev(ub), '&')
                if l > u:
                    raise QBError('subscript')
                bounds.append((l, u))
            obj = Array(self, t, bounds)
        if scope == 'shared':
            self.shared[name] = obj
        elif scope == 'static' or (f.proc is not None and f.proc.get('static')):
            key = (f.proc['name'], name)
            if key not in self.statics:
                self.statics[key] = obj
        else:
            f.vars[name] = obj

    def do_for(self, s):
        _, v, a, b, st, body, _nv = s
        t = v[2]
        step = conv(self.ev(st), t) if st is not None else conv(1, t)
        cell = self.loc(v)
        cell.v = conv(self.ev(a), t)
        lim = conv(self.ev(b), t)
        sign = (step > 0) - (step < 0)
        while True:
            if not (cell.v * sign <= lim * sign):
                break
            try:
                self.run_block(body)
            except ExitFor:
                return
            self.cur_stmt = ('next', s)
            self.steps += 1
            if self.steps > self.max_steps:
                raise ScriptOut()
            cell.v = conv(cell.v + step, t)

    def do_loop(self, s):
        _, kind, c, body = s
        while True:
            if kind == 'pre_while' and not self.truth(c):
                break
            if kind == 'pre_until' and self.truth(c):
                break
            try:
                self.run_block(body)
            except ExitDo:
                break
            self.cur_stmt = ('loop', s)
            self.steps += 1
            if self.steps > self.max_steps:
                raise ScriptOut()
            if kind == 'post_while' and not self.truth(c):
                break
            if kind == 'post_until' and self.truth(c):
                break

    def do_select(self, s):
        _, sel, cases, els = s
        t = etype(sel)
        v = self.ev(sel)

        def cv(e):
            x = self.ev(e)
            return x if t == '$' else conv(x, t)
        if isinstance(v, str):
            v = skey(v)
            _cv = cv

            def cv(x_, _cv=_cv):
                return skey(_cv(x_))
        for items, body in cases:
            hit = False
            for it in items:        # every clause of a CASE is evaluated
                if it[0] == 'v':
                    r = v == cv(it[1])
                elif it[0] == 'range':
                    lo = cv(it[1])
                    hi = cv(it[2])
                    r = lo <= v <= hi
                else:
                    x = cv(it[2])
                    r = {'=': v == x, '<>': v != x, '<': v < x, '>': v > x, '<=': v <= x, '>=': v >= x}[it[1]]
                hit = hit or r
            if hit:
                self.run_block(body)
                return
        if els is not None:
            self.run_block(els)

    def do_input(self, s):
        _, prompt, sep, lvs = s
        question = prompt is None or sep == ';'
        tys = [(lv[2] if lv[0] != 'fld' else lv[3]) for lv in lvs]
        while True:
            self.h.append(['out', prompt or ''])
            if question:
                self.h.append(['out', '? '])
            k = self.ii - len(self.inputs)
            line = self.nxt(self.inputs, 'ii', ','.join(['0'] * (1 + max(0, k) % 5)))
            self.h.append(['in', 0, line])
            if self.ii > len(self.inputs) + 200:
                raise ScriptOut()
            fields = [x.strip() for x in line.split(',')]
            vals = None
            if len(fields) == len(tys):
                vals = []
                for fld, t in zip(fields, tys):
                    if t == '$':
                        vals.append(fld)
                        continue
                    if not re.fullmatch(r'[+-]?(\d+\.?\d*|\.\d+)([eEdD][+-]?\d+)?', fld):
                        vals = None
                        break
                    x = int(fld) if re.fullmatch(r'[+-]?\d+', fld) else float(fld.replace('d', 'e').replace('D', 'e'))
                    try:
                        vals.append(conv(x, t))
                    except QBError:
                        vals = None
                        break
            if vals is not None:
                break
            self.h.append(['out', 'Redo from start\r\n'])
        # accepted fields are assigned to the variables in order
        for lv, v in zip(lvs, vals):
            self.loc(lv).v = v

    def do_dev(self, s):
        n, a = s[1], s[2]
        v = [self.ev(x) for x in a]

        def I(x):
            return conv(x, '%')
        if n == 'CLS':
            self.h.append(['dev', 'terminal', 'cls'])
        elif n == 'BEEP':
            self.h.append(['dev', 'pcspkr', 'beep'])
        elif n == 'COLOR':
            c = [I(x) for x in v] + [-1] * (3 - len(v))
            self.h.append(['dev', 'terminal', 'color', c[0], c[1], c[2]])
        elif n == 'LOCATE':
            row, col = I(v[0]), I(v[1])
            self.h.append(['dev', 'terminal', 'locate', row - 1 if row >= 1 else row, col - 1 if col >= 1 else col, -1, -1, -1])
        elif n == 'SOUND':
            self.h.append(['dev', 'pcspkr', 'sound', I(v[0]), conv(v[1], '&')])
        elif n == 'PLAY':
            self.h.append(['dev', 'pcspkr', 'play', v[0]])
        elif n == 'RANDOMIZE':
            self.h.append(['dev', 'rng', 'seed', conv(v[0], '!')])
        elif n == 'POKE':
            off = conv(v[0], '&')
            val = I(v[1])
            if val < 0 or val > 255:
                raise QBError('device')
            self.h.append(['dev', 'memory', 'poke', off, val])
        elif n == 'VIEWPRINT':
            self.h.append(['dev', 'terminal', 'view_print', I(v[0]), I(v[1])])
        elif n == 'WIDTH':
            self.h.append(['dev', 'terminal', 'width', I(v[0]), I(v[1])])
        elif n == 'SCREEN':
            self.h.append(['dev', 'terminal', 'set_mode', I(v[0]), -1, -1, -1])
        elif n == 'DEFSEG':
            if v:
                seg = conv(v[0], '&')
                if seg < 0 or seg > 65535:
                    raise QBError('device')
                self.h.append(['dev', 'memory', 'set_segment', seg])
            else:
                self.h.append(['dev', 'memory', 'set_default_segment'])
        else:
            raise ValueError(n)


class _GosubReq(_Jump):
    def __init__(self, label):
        self.label = label
