"""Driver for qvm.dbg.Cmd: feeds onecmd(), captures stdout, snapshots state after each command."""
import contextlib
import io

from . import rt
from qvm import dbg as qdbg
from qvm.cpu import HaltReason


class TickBudget(Exception):
    pass


class DbgSession:
    def __init__(self, module, script, budget=60000, cpu_class=None, autostatus='off'):
        self.module = module
        self.out = io.StringIO()
        self.machine, self.impl = rt.make_machine(module, script, cpu_class)
        self.cpu = self.machine.cpu
        self.ticks = 0
        self.budget = budget
        cpu = self.cpu
        orig_tick = cpu.tick
        sess = self

        def counted_tick():
            sess.ticks += 1
            if sess.ticks > sess.budget:
                raise TickBudget()
            return orig_tick()
        cpu.tick = counted_tick
        with contextlib.redirect_stdout(self.out):
            self.cmd = qdbg.Cmd(self.machine, module)
            # 'cur' is the debugger's default (source context after every command that runs the program)
            if autostatus != 'cur':
                self.cmd.onecmd(f'autostatus {autostatus}')
        self.finished_seen = False

    def do(self, line):
        """-> (stdout text, exception or None)"""
        buf = io.StringIO()
        exc = None
        try:
            with contextlib.redirect_stdout(buf):
                self.cmd.onecmd(line)
        except TickBudget:
            exc = 'tick-budget'
        except rt.ScriptExhausted:
            exc = 'script-exhausted'
        except Exception as e:  # noqa: BLE001
            exc = e
        return buf.getvalue(), exc

    @property
    def finished(self):
        return self.cpu.halted

    def cur_stmt(self):
        try:
            return self.cmd.find_nonempty_stmt(self.cpu.pc)
        except Exception:
            return None

    def frame_depth(self):
        d = 0
        f = self.cpu.cur_frame
        while f is not None:
            d += 1
            f = f.prev_frame
        return d

    def outcome(self):
        cpu = self.cpu
        if not cpu.halted:
            return ['running']
        if cpu.halt_reason == HaltReason.TRAP:
            return ['trap', rt.trap_class(cpu)]
        if cpu.halt_reason == HaltReason.INSTRUCTION:
            return ['halt']
        if cpu.halt_reason == HaltReason.END_OF_CODE:
            return ['end_of_code']
        return ['halted-with-reason', cpu.halt_reason.name]
