"""C15 - DATA items are read in source order and RESTORE repositions exactly."""
import itertools
import random

from .. import rt
from .common import V

PROP = 'C15'
LEVEL = 'exploration'
RULE = ('(a) DATA texts over {a,1,blank,comma,quote,colon,dot}: all texts of length <=5 (quick) / <=6 (thorough); well-formed '
        'colon-free texts are batched 30 per program behind individual RESTORE labels and read back as strings against a '
        'reference tokenizer; texts with a colon outside quotes or an unbalanced quote are compiled one by one (sampled in '
        'quick) and checked for totality and, when accepted, for the items before the colon; (b)+(c) random layouts of 1-5 '
        'DATA statements x labels/line numbers (with and without DATA of their own, several per DATA, after the last DATA, '
        'after procedures) x READ/RESTORE sequences of length <=8/<=14 with targets of all five types against a cursor '
        'model; non-trivial = >=1 READ compared; distinct = DATA text / (layout, op sequence) hash')
ASSUMPTIONS = ['the tokenizer oracle applies to well-formed items only (unquoted without quote characters, or opened and closed '
               'by quotes); numeric conversion is demanded for plain integers and plain decimals only']
REQUIRED_COUNTERS = ['texts_checked', 'reads_compared', 'restores_executed', 'layouts']
ALPHA = ['a', '1', ' ', ',', '"', ':', '.']


def ref_tokenize(text):
    """-> list of items (str or None for empty) or 'malformed'. From the property text."""
    items = []
    i = 0
    n = len(text)
    cur = ''
    inq = False
    parts = []
    for ch in text:
        if ch == '"':
            inq = not inq
            cur += ch
        elif ch == ',' and not inq:
            parts.append(cur)
            cur = ''
        else:
            cur += ch
    if inq:
        return 'malformed'
    parts.append(cur)
    for p in parts:
        s = p.strip(' \t')          # blanks: space and TAB
        if s == '':
            items.append(None)
        elif s.startswith('"'):
            if not (len(s) >= 2 and s.endswith('"') and s.count('"') == 2):
                return 'malformed'
            items.append(s[1:-1])
        else:
            if '"' in s:
                return 'malformed'
            items.append(s)
    return items


def colon_outside_quotes(text):
    inq = False
    for ch in text:
        if ch == '"':
            inq = not inq
        elif ch == ':' and not inq:
            return True
    return False


def batch_program(texts):
    lines = []
    expected = []
    for k, t in enumerate(texts):
        items = ref_tokenize(t)
        lines.append(f'zd{k}: DATA {t}')
        expected.append(items)
    lines.append('zend: DATA "sentinel"')
    for k, items in enumerate(expected):
        lines.append(f'RESTORE zd{k}')
        for _ in items:
            lines.append('READ zs$: PRINT "[" + zs$ + "]";')
        lines.append('READ zs$: PRINT "<" + zs$ + ">"')
    return '\n'.join(lines) + '\n', expected


def run_batch(case, st, viol, shapes):
    texts = case['texts']
    prog, expected = batch_program(texts)
    for cfg in ((0, False), (2, True)) if case.get('both') else ((1, False),):
        c = rt.compile_src(prog, cfg[0], cfg[1])
        if c.status != 'ok':
            # find the culprit by compiling individually
            for t in texts:
                c1 = rt.compile_src(f'DATA {t}\n', cfg[0], cfg[1])
                if c1.status != 'ok':
                    viol.append(V(f'C15:wellformed-data-rejected:{c1.status}', f'DATA {t!r}: {c1.brief()} {c1.msg}', text=t))
            if not viol:
                viol.append(V(f'C15:batch-rejected:{c.status}', f'{c.brief()} {c.msg}', text=prog[:800]))
            return
        mod = rt.load_module(c.modbytes)
        r = rt.run_module(mod, {}, max_ticks=400000)
        outs = ''.join(e[1] for e in r.history if e[0] == 'out')
        got_lines = outs.split('\r\n')
        for k, (t, items) in enumerate(zip(texts, expected)):
            st['texts_checked'] += 1
            shapes.append('t:' + t)
            nxt = texts[k + 1] if k + 1 < len(texts) else None
            # after the items of text k the next READ must deliver the first item of the next DATA statement
            nxt_items = expected[k + 1] if k + 1 < len(texts) else ['sentinel']
            follower = nxt_items[0] if nxt_items[0] is not None else ''
            want = ''.join(f'[{i if i is not None else ""}]' for i in items) + f'<{follower}>'
            st['reads_compared'] += len(items) + 1
            st['restores_executed'] += 1
            got = got_lines[k] if k < len(got_lines) else None
            if got != want:
                viol.append(V('C15:tokenization', f'DATA {t!r} [{rt.cfg_name(cfg)}]: read back {got!r}, reference {want!r}',
                              text=t))
        if r.outcome[0] not in ('halt', 'end_of_code'):
            viol.append(V(f'C15:batch-outcome:{r.outcome}', f'{r.outcome} {r.stdout[-200:]!r} {r.crash_tb}', text=prog[:500]))


def run_single(case, st, viol, shapes):
    """Texts with a colon outside quotes or malformed quoting: totality + prefix items."""
    for t in case['texts']:
        prog = f'DATA {t}\nDATA "sentinel"\nSUB a\nEND SUB\n'
        st['texts_checked'] += 1
        st['irregular_texts'] = st.get('irregular_texts', 0) + 1
        shapes.append('t:' + t)
        c = rt.compile_src(prog, 0, False)
        if c.status == 'crash':
            viol.append(V(f'C15:crash:{c.sig}', f'DATA {t!r}: {c.exc}: {c.msg}', text=t))
            continue
        if c.status != 'ok':
            st['irregular_rejected'] = st.get('irregular_rejected', 0) + 1
            continue
        # accepted: the part before the first colon outside quotes must tokenize per the reference (if well formed)
        head = t
        inq = False
        for i, ch in enumerate(t):
            if ch == '"':
                inq = not inq
            elif ch == ':' and not inq:
                head = t[:i]
                break
        items = ref_tokenize(head)
        if items == 'malformed':
            st['irregular_accepted_unchecked'] = st.get('irregular_accepted_unchecked', 0) + 1
            continue
        mod = rt.load_module(c.modbytes)
        flat = [x for part in mod.data for x in part]
        from qbee.utils import Empty
        got = [None if x == Empty.value else x for x in flat]
        st['reads_compared'] += len(items)
        if got != items + ['sentinel']:
            viol.append(V('C15:tokenization-before-colon', f'DATA {t!r}: module holds {got!r}, reference {items + ["sentinel"]!r}',
                          text=t))


# ----------------------------------------------------------------------------- layouts and sequences
def conv_expected(item, ty):
    """-> ('v', value) | ('err', trapclass) | ('skip',)"""
    if item is None:
        return ('v', '' if ty == '$' else 0)
    if ty == '$':
        return ('v', item)
    s = item.strip()
    import re
    if ty in '%&':
        if re.fullmatch(r'-?\d+', s):
            v = int(s)
            lim = 32767 if ty == '%' else 2**31 - 1
            if -lim - 1 <= v <= lim:
                return ('v', v)
            return ('skip',)
        if re.fullmatch(r'-?\d*\.\d+', s):
            # converted to the receiving type the way every other conversion to an integer type works in this language
            # (assignment, conv instructions): round to nearest, ties to even
            from fractions import Fraction
            v = round(Fraction(s))
            lim = 32767 if ty == '%' else 2**31 - 1
            if -lim - 1 <= v <= lim:
                return ('v', v)
            return ('skip',)
        return ('err', 'DEVICE_ERROR')
    if re.fullmatch(r'-?(\d+(\.\d*)?|\.\d+)', s):
        v = float(s)
        if ty == '!':
            import struct
            v = struct.unpack('>f', struct.pack('>f', v))[0]
        return ('v', v)
    return ('err', 'DEVICE_ERROR')


def gen_layout(r, nops):
    """-> (program text, expected history list, shape key)"""
    nd = r.randint(1, 5)
    datas = []
    for _ in range(nd):
        items = []
        for _ in range(r.randint(1, 4)):
            k = r.random()
            if k < 0.45:
                items.append(str(r.choice([0, 1, 7, 42, -5, 300, 32767])))
            elif k < 0.6:
                items.append(r.choice(['1.5', '0.25', '-2.5', '100.125', '2.5', '0.5', '-0.5', '.5', '3.5', '-1.5', '32766.5', '6.75']))
            elif k < 0.8:
                items.append(r.choice(['abc', 'two words', 'x']))
            elif k < 0.9:
                items.append(r.choice(['"q, r"', '" pad "', '""']))
            else:
                items.append('')
        datas.append(items)
    # main-level slots: a list of lines; DATA statements and labels are interleaved with code
    slots = []   # entries: ('data', idx) | ('label', name) | ('code',) | ('proc',)
    labels = []
    lab_n = [0]

    def newlabel():
        lab_n[0] += 1
        if r.random() < 0.3:
            return str((lab_n[0] - 1) * 10)        # line numbers 0, 10, 20 ... (0 is a line number like any other)
        return f'zl{lab_n[0]}'
    for i in range(nd):
        for _ in range(r.choice([0, 0, 1, 1, 2])):
            slots.append(('label', newlabel()))
        if r.random() < 0.3:
            slots.append(('labeldata', newlabel(), i))
        else:
            slots.append(('data', i))
        if r.random() < 0.2:
            slots.append(('nop',))
    if r.random() < 0.5:
        slots.append(('label', newlabel()))      # label after the last DATA
    # flatten items and label -> item index
    flat = []
    ref_items = []
    label_pos = {}
    pending = []
    first_index = {}
    for s in slots:
        if s[0] == 'label':
            pending.append(s[1])
        elif s[0] in ('data', 'labeldata'):
            idx = s[-1]
            if s[0] == 'labeldata':
                pending.append(s[1])
            for l in pending:
                label_pos[l] = len(flat)
            pending = []
            toks = ref_tokenize(', '.join(datas[idx]))
            flat.extend(toks)
    for l in pending:
        label_pos[l] = len(flat)
    # placement: which slots go before the executed code, after it (after END), after a SUB
    where = [r.choice(['before', 'after', 'afterproc']) for _ in slots]
    # keep relative order: sort stable by zone order before < after < afterproc would reorder; instead choose two cut points
    n = len(slots)
    c1 = r.randint(0, n)
    c2 = r.randint(c1, n)
    zones = ['before'] * c1 + ['after'] * (c2 - c1) + ['afterproc'] * (n - c2)

    def render(s):
        if s[0] == 'label':
            return s[1] + (':' if not s[1].isdigit() else ' REM')
        if s[0] == 'data':
            return 'DATA ' + ', '.join(datas[s[1]])
        if s[0] == 'labeldata':
            return (s[1] + (': ' if not s[1].isdigit() else ' ')) + 'DATA ' + ', '.join(datas[s[2]])
        return 'zn = zn + 1'
    before = [render(s) for s, z in zip(slots, zones) if z == 'before']
    after = [render(s) for s, z in zip(slots, zones) if z == 'after']
    afterproc = [render(s) for s, z in zip(slots, zones) if z == 'afterproc']
    # op sequence + expectation (cursor model)
    ops = []
    expect = []
    cur = 0
    tys = '%&!#$'
    dead = False
    in_sub = r.random() < 0.3
    # a label local to the reading procedure: "the first DATA statement at or after that label" is the first one after the
    # procedure's text, i.e. the first item of the afterproc zone
    sub_pos = 0
    for s_, z_ in zip(slots, zones):
        if z_ != 'afterproc' and s_[0] in ('data', 'labeldata'):
            sub_pos += len(ref_tokenize(', '.join(datas[s_[-1]])))
    local_label = 'zsl9' if (in_sub and r.random() < 0.7) else None
    split_done = False
    for _ in range(nops):
        if dead:
            break
        if in_sub and not split_done and ops and r.random() < 0.2:
            # the procedure returns here; the main program goes on in a straight line: plain RESTORE, then more READs
            split_done = True
            ops.append('@@MAIN@@')
            ops.append('RESTORE')
            cur = 0
            expect.append(('restore',))
            continue
        k = r.random()
        if k < 0.7:
            nv = r.choice([1, 1, 2, 3])
            names = []
            failing = None
            for _ in range(nv):
                item = flat[cur] if cur < len(flat) else None
                if cur >= len(flat) or item is None:
                    ty = r.choice(tys)
                else:
                    if conv_expected(item, '%')[0] == 'v' and r.random() < 0.8:
                        ty = r.choice('%&!#')
                    elif conv_expected(item, '#')[0] == 'v' and r.random() < 0.8:
                        ty = r.choice('!#')
                    else:
                        ty = '$' if r.random() < 0.9 else r.choice('%#')
                nm = 'zv' + {'%': 'i', '&': 'l', '!': 's', '#': 'd', '$': 't'}[ty] + str(len(names)) + ty
                if cur >= len(flat):
                    failing = (nm, ('err', 'DEVICE_ERROR:OP_FAILED'))
                    break
                ce = conv_expected(flat[cur], ty)
                if ce[0] == 'skip':
                    nm, ty = f'zvt{len(names)}$', '$'
                    ce = conv_expected(flat[cur], '$')
                if ce[0] == 'err':
                    failing = (nm, ('err', 'DEVICE_ERROR:BAD_ARG_TYPE'))
                    break
                names.append(nm)
                expect.append(('v', ty, ce[1]))
                cur += 1
            if names:
                ops.append('READ ' + ', '.join(names) + '\n' + '\n'.join(f'PRINT {nm}' for nm in names))
            if failing:
                # an error in the middle of a multi-variable READ would hide the values read before it,
                # so the failing variable gets a READ statement of its own
                ops.append(f'READ {failing[0]}\nPRINT {failing[0]}')
                expect.append(failing[1])
                dead = True
        elif k < 0.85:
            ops.append('RESTORE')
            cur = 0
            expect.append(('restore',))
        else:
            if label_pos and (not in_sub or split_done):
                l = r.choice(sorted(label_pos))
                ops.append(f'RESTORE {l}')
                cur = label_pos[l]
                expect.append(('restore',))
            elif local_label:
                ops.append(f'RESTORE {local_label}')
                cur = sub_pos
                expect.append(('restore',))
    if '@@MAIN@@' in ops:
        k_ = ops.index('@@MAIN@@')
        body = '\n'.join(ops[:k_])
        body_main = '\n'.join(ops[k_ + 1:])
    else:
        body = '\n'.join(ops)
        body_main = None
    lines = before[:]
    if in_sub:
        lines.append('zreader')
        if body_main is not None:
            lines.append(body_main)
    else:
        lines.append(body)
    lines.append('END')
    lines += after
    lines.append('SUB zother\nzq = 1\nEND SUB')
    if in_sub:
        lines.append('SUB zreader\n' + (f'{local_label}:\n' if local_label else '') + body + '\nEND SUB')
    lines += afterproc
    text = '\n'.join(lines) + '\n'
    key = f"{[s[0] for s in slots]}|{zones}|{len(ops)}|{in_sub}"
    return text, expect, key


def run_layout(case, st, viol, shapes):
    r = random.Random(case['lseed'])
    for j in range(case['n']):
        text, expect, key = gen_layout(r, case['nops'])
        st['layouts'] += 1
        cfg = rt.CONFIGS6[(case['lseed'] + j) % 6]
        c = rt.compile_src(text, cfg[0], cfg[1])
        if c.status != 'ok':
            viol.append(V(f'C15:layout-rejected:{c.status}:{c.sig or c.err_code}', f'{c.brief()} {c.msg} (line {rt.line_of(text, c.loc)})',
                          text=text))
            continue
        mod = rt.load_module(c.modbytes)
        run = rt.run_module(mod, {}, max_ticks=100000)
        prints = [e[1] for e in run.history if e[0] == 'print']
        shapes.append(key)
        pi = 0
        ok = True
        for e in expect:
            if e[0] == 'restore':
                st['restores_executed'] += 1
                continue
            if e[0] == 'v':
                st['reads_compared'] += 1
                if pi >= len(prints):
                    viol.append(V('C15:read-missing', f'[{rt.cfg_name(cfg)}] expected value {e} but the run ended: {run.outcome} '
                                  f'{run.stdout[-150:]!r}', text=text))
                    ok = False
                    break
                got = prints[pi][0]
                pi += 1
                if got[1] != e[1] or got[2] != e[2]:
                    viol.append(V('C15:read-value', f'[{rt.cfg_name(cfg)}] READ #{pi} gave {got[1:]} reference {e[1:]}', text=text))
                    ok = False
                    break
            else:
                st['error_reads'] = st.get('error_reads', 0) + 1
                want = e[1]
                got = run.outcome[1] if run.outcome[0] == 'trap' else run.outcome[0]
                if pi != len(prints) or got != want:
                    viol.append(V(f'C15:read-error:{want}->{got}', f'[{rt.cfg_name(cfg)}] expected {want} after {pi} values; '
                                  f'run: {run.outcome}, {len(prints)} values', text=text))
                ok = False
                break
        if ok and (run.outcome[0] not in ('halt',) or pi != len(prints)):
            viol.append(V(f'C15:layout-outcome:{run.outcome[0]}', f'{run.outcome}; {len(prints)} values, expected {pi}; '
                          f'{run.stdout[-150:]!r}', text=text))


def gen_cases(tier, seed):
    r = random.Random(seed)
    maxlen = 5 if tier == 'quick' else 6
    good, irregular = [], []
    for n in range(0, maxlen + 1):
        for tup in itertools.product(ALPHA, repeat=n):
            t = ''.join(tup)
            if t != t.strip(' ') and n > 3:
                # leading/trailing blanks are covered up to length 3; beyond that they only repeat trimming
                continue
            if colon_outside_quotes(t) or ref_tokenize(t) == 'malformed':
                irregular.append(t)
            else:
                good.append(t)
    # the same texts with TABs as blanks (all blanks, or every other one)
    tabbed = []
    for t in good:
        if ' ' in t:
            tabbed.append(t.replace(' ', '\t'))
            alt = ''.join(('\t' if (ch == ' ' and k % 2) else ch) for k, ch in enumerate(t))
            if alt != t:
                tabbed.append(alt)
    if tier == 'quick':
        tabbed = r.sample(tabbed, min(len(tabbed), 900))
    good = good + sorted(set(tabbed))
    cs = []
    r.shuffle(good)
    B = 30
    for i in range(0, len(good), B):
        cs.append({'kind': 'batch', 'texts': good[i:i + B], 'both': (i // B) % 10 == 0})
    if tier == 'quick':
        irregular = r.sample(irregular, min(len(irregular), 1500))
    for i in range(0, len(irregular), 50):
        cs.append({'kind': 'single', 'texts': irregular[i:i + 50]})
    nl = 40 if tier == 'quick' else 500
    for i in range(nl):
        cs.append({'kind': 'layout', 'lseed': seed * 1009 + i, 'n': 6, 'nops': 8 if tier == 'quick' else 14})
    return cs


EXHAUSTIVE = {}


def run_case(case):
    st = {'texts_checked': 0, 'reads_compared': 0, 'restores_executed': 0, 'layouts': 0}
    viol = []
    shapes = []
    if case['kind'] == 'batch':
        run_batch(case, st, viol, shapes)
        sample = {'data_texts': case['texts'][:5]}
    elif case['kind'] == 'single':
        run_single(case, st, viol, shapes)
        sample = None
    else:
        run_layout(case, st, viol, shapes)
        sample = {'layout_program': gen_layout(random.Random(case['lseed']), case['nops'])[0][:500]}
    return {'viol': viol[:40], 'stats': st, 'shape': shapes, 'nontrivial': bool(shapes), 'sample': sample}
