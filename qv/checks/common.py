import hashlib
import re


def shape_of(text):
    """Program shape: text with literals and generated-name numbers erased."""
    t = re.sub(r'"[^"\n]*"', '"S"', text)
    t = re.sub(r'\d+(\.\d+)?', 'N', t)
    return hashlib.sha1(t.encode()).hexdigest()[:12]


def shape_cases(n, seed):
    """Degenerate control-flow programs (qv/shapes.py): a seeded sample of n (all when n is None)."""
    from .. import shapes
    allp = shapes.programs()
    if n is None or n >= len(allp):
        return [{'src': 'shape', 'idx': i} for i in range(len(allp))]
    idx = {t: i for i, (t, _x) in enumerate(allp)}
    return [{'src': 'shape', 'idx': idx[t]} for t, _x in shapes.sample(n, seed)]


def gen_cases_corpus(n_gen, seed, opts=None, with_repo=True, base=0, tag='gen'):
    from .. import cases
    out = []
    for i in range(n_gen):
        c = {'src': 'gen', 'seed': seed * 100003 + base + i}
        if opts:
            c['opts'] = opts
        if i % 2:
            c['reuse'] = True       # the locals of different routines share their names (render.reuse_names)
        out.append(c)
    if with_repo:
        for i, sn in enumerate(cases.snippets()):
            if sn['expect'] in ('success', 'trap'):
                out.append({'src': 'repo', 'idx': i})
        from .. import tour
        for i in range(len(tour.TOUR)):
            out.append({'src': 'tour', 'idx': i})
    return out


def V(sig, msg, **kw):
    d = {'sig': sig, 'msg': msg}
    d.update(kw)
    return d
