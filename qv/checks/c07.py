"""C07 - the virtual machine is total: every run ends in a halt or a trap.

Monitors: exception observer around every tick; halt_reason/last_trap at the end; cause -> trap class table for
constructed failures; real SIGINT delivered between two ticks through the handler QvmCpu installed itself, with a
full-state snapshot before the request and after the next tick.
"""
import hashlib
import os
import random
import signal

from .. import cases, diff, rt
from .common import shape_of, gen_cases_corpus, V
from . import c06

PROP = 'C07'
LEVEL = 'exploration'
RULE = ('fault programs = cause (div0 / overflow / subscript / illegal call / device failure) x operand types x '
        'expression depth 0-3 x place (main, SUB, FUNCTION) x handler (none, ON ERROR GOTO, ON ERROR RESUME NEXT) x '
        '{-g, no -g}; extreme-argument programs = every run-time library entry (builtins, conversions, device statements, PRINT, '
        'PRINT USING, VAL/READ/INPUT text) x boundary and absurd values, under a RESUME NEXT handler and bare; totality programs = accepted C06 mutants and generated programs run with scripts; interrupt '
        'schedules = SIGINT at every tick boundary k (programs <=300 ticks) or 64 sampled k; non-trivial = module ran '
        '>=1 tick; distinct = program shape / (cause,place,handler,depth) / (program,k)')
ASSUMPTIONS = ['runs are cut at a logical tick budget (reported separately, not a violation)',
               'device refusals are scripted through the peripherals object (DeviceError from impl)']
REQUIRED_COUNTERS = ['fault_programs_run', 'irq_points', 'totality_runs']
CASE_TIMEOUT = 600

LANG = 'language'
CAUSES = [
    # (name, setup lines, failing expression (numeric unless noted), kind of expr: n/s, expected trap class)
    ('div0-float', ['zz = 0'], '1 / zz', 'n', 'DIVISION_BY_ZERO'),
    ('div0-int', ['zz% = 0'], '7 / zz%', 'n', 'DIVISION_BY_ZERO'),
    ('div0-dbl', ['zz# = 0'], '7# / zz#', 'n', 'DIVISION_BY_ZERO'),
    ('idiv0', ['zz% = 0'], '7 \\ zz%', 'n', 'DIVISION_BY_ZERO'),
    ('idiv0-long', ['zz& = 0'], '70000 \\ zz&', 'n', 'DIVISION_BY_ZERO'),
    ('mod0', ['zz% = 0'], '7 MOD zz%', 'n', 'DIVISION_BY_ZERO'),
    ('mod0-float', ['zz = 0.2'], '7 MOD zz', 'n', 'DIVISION_BY_ZERO'),
    ('ovf-int-add', ['zo% = 32767'], 'zo% + 1', 'n', 'INVALID_CELL_VALUE'),
    ('ovf-int-sub', ['zo% = -32768'], 'zo% - 1', 'n', 'INVALID_CELL_VALUE'),
    ('ovf-int-mul', ['zo% = 300'], 'zo% * zo%', 'n', 'INVALID_CELL_VALUE'),
    ('ovf-int-neg', ['zo% = -32768'], '-zo%', 'n', 'INVALID_CELL_VALUE'),
    ('ovf-long-add', ['zo& = 2147483647'], 'zo& + 1', 'n', 'INVALID_CELL_VALUE'),
    ('ovf-long-mul', ['zo& = 100000'], 'zo& * zo&', 'n', 'INVALID_CELL_VALUE'),
    ('ovf-single-mul', ['zo! = 3E+38'], 'zo! * 10', 'n', 'INVALID_CELL_VALUE'),
    ('ovf-single-add', ['zo! = 3.4E+38'], 'zo! + zo!', 'n', 'INVALID_CELL_VALUE'),
    ('ovf-cint', ['zo! = 40000'], 'CINT(zo!)', 'n', 'INVALID_CELL_VALUE'),
    ('ovf-clng', ['zo# = 3D+9'], 'CLNG(zo#)', 'n', 'INVALID_CELL_VALUE'),
    ('ovf-int', ['zo# = 1D+10'], 'INT(zo#)', 'n', 'INVALID_CELL_VALUE'),
    ('ovf-conv-not', ['zo# = 3D+9'], 'NOT zo#', 'n', 'INVALID_CELL_VALUE'),
    ('ovf-conv-and', ['zo! = 3E+9'], 'zo! AND 1', 'n', 'INVALID_CELL_VALUE'),
    ('ovf-conv-idiv', ['zo# = 3D+9'], 'zo# \\ 2', 'n', 'INVALID_CELL_VALUE'),
    ('ovf-pow-int', ['zo% = 200'], 'zo% ^ 2', 'n', 'INVALID_CELL_VALUE'),
    ('ovf-pow-single', ['zo! = 1E+30'], 'zo! ^ 2', 'n', 'INVALID_CELL_VALUE'),
    ('ovf-pow-double', ['zo# = 10'], 'zo# ^ 400', 'n', 'INVALID_CELL_VALUE'),
    ('pow-neg-frac', ['zo# = -8'], 'zo# ^ 0.5#', 'n', 'INVALID_OPERAND_VALUE'),
    ('pow-zero-neg', ['zo# = 0', 'zm# = -1'], 'zo# ^ zm#', 'n', 'DIVISION_BY_ZERO'),
    ('sub-above', ['DIM za(3)', 'zi% = 4'], 'za(zi%)', 'n', 'INDEX_OUT_OF_RANGE'),
    ('sub-below', ['DIM za(2 TO 3)', 'zi% = 1'], 'za(zi%)', 'n', 'INDEX_OUT_OF_RANGE'),
    ('sub-2d', ['DIM za(2, 2)', 'zi% = 3'], 'za(1, zi%)', 'n', 'INDEX_OUT_OF_RANGE'),
    ('sub-2d-first', ['DIM za(2, 2)', 'zi% = -1'], 'za(zi%, 1)', 'n', 'INDEX_OUT_OF_RANGE'),
    ('sub-rec', ['DIM zr(2) AS zt', 'zi% = 5'], 'zr(zi%).a', 'n', 'INDEX_OUT_OF_RANGE'),
    ('sub-huge', ['DIM za(3)', 'zi& = 100000'], 'za(zi&)', 'n', 'INDEX_OUT_OF_RANGE'),
    ('ubound-dim', ['DIM za(3)', 'zi% = 2'], 'UBOUND(za, zi%)', 'n', 'INDEX_OUT_OF_RANGE'),
    ('chr-256', ['zi% = 256'], 'CHR$(zi%)', 's', 'INVALID_OPERAND_VALUE'),
    ('chr-neg', ['zi% = -1'], 'CHR$(zi%)', 's', 'INVALID_OPERAND_VALUE'),
    ('space-neg', ['zi% = -1'], 'SPACE$(zi%)', 's', 'INVALID_OPERAND_VALUE'),
    ('string-neg', ['zi% = -1'], 'STRING$(zi%, "a")', 's', 'INVALID_OPERAND_VALUE'),
    ('string-empty', ['zs$ = ""'], 'STRING$(2, zs$)', 's', 'INVALID_OPERAND_VALUE'),
    ('string-code', ['zi% = 300'], 'STRING$(2, zi%)', 's', 'INVALID_OPERAND_VALUE'),
    ('left-neg', ['zi% = -1'], 'LEFT$("abc", zi%)', 's', 'INVALID_OPERAND_VALUE'),
    ('right-neg', ['zi% = -1'], 'RIGHT$("abc", zi%)', 's', 'INVALID_OPERAND_VALUE'),
    ('mid-zero', ['zi% = 0'], 'MID$("abc", zi%)', 's', 'INVALID_OPERAND_VALUE'),
    ('mid-neglen', ['zi% = -1'], 'MID$("abc", 1, zi%)', 's', 'INVALID_OPERAND_VALUE'),
    ('asc-empty', ['zs$ = ""'], 'ASC(zs$)', 'n', 'INVALID_OPERAND_VALUE'),
    ('instr-zero', ['zi% = 0'], 'INSTR(zi%, "abc", "b")', 'n', 'INVALID_OPERAND_VALUE'),
]
STMT_CAUSES = [
    ('read-exhausted', ['DATA 1'], 'READ zq, zw', 'DEVICE_ERROR:OP_FAILED'),
    ('read-nodata', [], 'READ zq', 'DEVICE_ERROR:OP_FAILED'),
    ('read-text-into-number', ['DATA abc'], 'READ zq%', 'DEVICE_ERROR:BAD_ARG_TYPE'),
    ('read-float-into-int', ['DATA 1.5x'], 'READ zq&', 'DEVICE_ERROR:BAD_ARG_TYPE'),
    ('dim-lb-gt-ub', ['zi% = 1'], 'DIM zd(5 TO zi%)', 'INDEX_OUT_OF_RANGE'),
    ('assign-ovf', ['zl& = 40000'], 'zq% = zl&', 'INVALID_CELL_VALUE'),
    ('assign-ovf-single', ['zl# = 1D+300'], 'zq! = zl#', 'INVALID_CELL_VALUE'),
    ('for-ovf', [], 'FOR zq% = 32766 TO 32767: NEXT', 'INVALID_CELL_VALUE'),
    ('sound-refused', [], 'SOUND 10, 1', 'DEVICE_ERROR:BAD_ARG_VALUE'),
    ('poke-range', ['zi% = 256'], 'POKE 1, zi%', 'DEVICE_ERROR:BAD_ARG_VALUE'),
    ('defseg-range', ['zl& = 70000'], 'DEF SEG = zl&', 'DEVICE_ERROR:BAD_ARG_VALUE'),
    ('screen-args', ['zi% = 1'], 'SCREEN 0, zi%', 'DEVICE_ERROR:BAD_ARG_VALUE'),
    ('kill-refused', [], 'KILL "nosuch"', 'DEVICE_ERROR:FILE_NOT_FOUND'),
    ('return-without-gosub', [], 'RETURN', None),
    ('resume-without-error', [], 'RESUME', None),
    ('resume-next-without-error', [], 'RESUME NEXT', None),
    ('byref-record', ['DIM zrr AS zt', 'zrr.a = 1', 'zrr.b = 2'], 'zprec zrr', 'ok'),
    ('dim-tie-bounds', ['DIM zfb(0.5 TO 3)', 'DIM zfc(2.5 TO 4.5) AS LONG', 'zg% = 7'], 'zfb(3) = 1: zfc(4) = 2: zfb(0) = 3: zfc(2) = 4: PRINT zg%', 'ok'),
    ('dim-tie-bounds-last', ['zg% = 7', 'DIM zfb(-1.5 TO 2.5) AS STRING'], 'zfb(2) = "x": zfb(-2) = "y": PRINT zfb(2); zg%', 'ok'),
    ('dim-3d-uneven', ['DIM zcube(1 TO 2, 1 TO 3, 1 TO 2) AS INTEGER', 'zg% = 7'], 'zcube(2, 3, 2) = 5: zcube(1, 3, 1) = 6: PRINT zcube(2, 1, 1); zg%', 'ok'),
    ('print-using-few', [], 'PRINT USING "## ##"; 1', None),
    ('print-using-many', [], 'PRINT USING "##"; 1; 2', None),
    ('print-using-strnum', [], 'PRINT USING "##"; "a"', None),
    ('print-using-numstr', [], 'PRINT USING "&"; 5', None),
    ('print-using-esc-end', [], 'PRINT USING "x_"; 1', None),
    ('print-using-bang-empty', [], 'PRINT USING "!"; ""', None),
    ('print-using-no-values', [], 'PRINT USING "abc";', None),
    ('print-using-no-values-field', [], 'PRINT USING "##.#";', None),
    ('print-using-empty-format', [], 'PRINT USING ""; 1', None),
    ('print-using-only-separators', [], 'PRINT USING "#"; 1; ; 2', None),
    ('val-huge', ['zs$ = "1e40"'], 'PRINT VAL(zs$)', None),
    ('val-dexp', ['zs$ = "1d400"'], 'PRINT VAL(zs$)', None),
    ('val-hex', ['zs$ = "&HFFFFFFFFF"'], 'PRINT VAL(zs$)', None),
    ('val-suffix', ['zs$ = "40000%"'], 'PRINT VAL(zs$)', None),
    ('read-dexp', ['DATA 1D+20'], 'READ zq#', None),
    ('read-huge-single', ['DATA 1E+39'], 'READ zq!', None),
    ('read-huge-int', ['DATA 99999'], 'READ zq%', None),
    ('input-into-for-param', [], 'zpfor 3', None),
    ('big-int-pow', ['zo& = 2147483647'], 'PRINT zo& ^ 2', None),
    ('locate-neg', ['zi% = -5'], 'LOCATE zi%, zi%', None),
    ('color-big', ['zi% = 30000'], 'COLOR zi%, zi%, zi%', None),
    ('width-zero', ['zi% = 0'], 'WIDTH zi%, zi%', None),
    ('play-empty', ['zs$ = ""'], 'PLAY zs$', None),
    ('bload', [], 'BLOAD "nofile", 0', None),
    ('bsave', [], 'BSAVE "nofile", 0, 10', None),
    ('on-error-in-handler', [], 'ON ERROR GOTO 0', None),
]
PROCS = ("SUB zprec (p AS zt)\nPRINT p.a; p.b\nEND SUB\nSUB zpfor (n%)\nFOR n% = 1 TO 2\nNEXT\nPRINT n%\nEND SUB\n")
TYPES = "TYPE zt\na AS INTEGER\nb AS LONG\nEND TYPE\n"


def wrap_depth(e, kind, depth, r):
    for _ in range(depth):
        if kind == 'n':
            # (the last two: a user FUNCTION has run to completion, its result pending, before the failing operation)
            e = r.choice(['({e}) + 1', 'ABS({e})', '2 * ({e})', '-({e})', 'zfn(({e}))', 'CINT({e}) \\ 1', 'zfn(3) + ({e})',
                          'zfn(zfn(2)) * ({e})']).format(e=e)
        else:
            e = r.choice(['"x" + {e}', 'UCASE$({e})', 'LEFT$({e}, 1)', '{e} + "y"', 'LTRIM$({e})']).format(e=e)
    return e


def fault_program(cause, depth, place, handler, stmt_form, r):
    """-> (text, failing line, expected class or None)"""
    if len(cause) == 5:
        name, setup, e, kind, expected = cause
        e = wrap_depth(e, kind, depth, r)
        if stmt_form == 'assign':
            failing = ('zres = ' if kind == 'n' else 'zres$ = ') + e
        elif stmt_form == 'print':
            failing = 'PRINT 5; ' + e
        elif stmt_form == 'if':
            failing = f'IF ({e}) = 0 THEN zres = 1' if kind == 'n' else f'IF ({e}) = "q" THEN zres = 1'
        elif stmt_form == 'call':
            failing = f'zpsub ({e})' if kind == 'n' else f'zpsubs ({e})'
        elif stmt_form == 'select':
            failing = f'SELECT CASE {e}: CASE ELSE: END SELECT'.replace(': ', '\n')
        else:
            failing = f'zarr(1) = {e}' if kind == 'n' else f'zsarr$(1) = {e}'
    else:
        name, setup, failing, expected = cause
    pre = ['PRINT "before"']
    post = ['PRINT "after"']
    body = list(setup) + pre + [failing] + post
    lines = [TYPES.rstrip('\n'), 'DIM zarr(3)', 'DIM zsarr$(3)']
    if handler == 'goto':
        lines.append('ON ERROR GOTO zhandler')
    elif handler == 'resume_next':
        lines.append('ON ERROR RESUME NEXT')
    if place == 'main':
        lines += body
    elif place == 'sub':
        lines += ['zouter']
    else:
        lines += ['zv = zouterf(1)']
    # without a handler label after it, the main routine may also simply run off its end (its own ret pops whatever is left)
    lines += ['PRINT "end"'] + ([] if (handler != 'goto' and r.random() < 0.5) else ['END'])
    if handler == 'goto':
        lines += ['zhandler:', 'PRINT "handler"; ERR', 'RESUME NEXT']
    procs = PROCS + ("FUNCTION zfn (x)\nzfn = x\nEND FUNCTION\nSUB zpsub (x)\nEND SUB\nSUB zpsubs (x$)\nEND SUB\n")
    if place == 'sub':
        procs += 'SUB zouter\n' + '\n'.join(body) + '\nEND SUB\n'
    elif place == 'function':
        procs += 'FUNCTION zouterf (q)\n' + '\n'.join(body) + '\nzouterf = 1\nEND FUNCTION\n'
    text = '\n'.join(lines) + '\n' + procs
    return text, expected


def gen_cases(tier, seed):
    r = random.Random(seed)
    cs = []
    combos = []
    for ci, cause in enumerate(CAUSES):
        for place in ('main', 'sub', 'function'):
            for handler in ('none', 'goto', 'resume_next'):
                combos.append((ci, place, handler))
    r.shuffle(combos)
    if tier == 'quick':
        # every cause x place with no handler once, handlers sampled
        keep = [c for c in combos if c[2] == 'none'] + [c for c in combos if c[2] != 'none'][:120]
    else:
        keep = combos * 3
    for k, (ci, place, handler) in enumerate(keep):
        cs.append({'kind': 'fault', 'cause': ci, 'place': place, 'handler': handler,
                   'depth': (k + ci) % 4, 'form': ['assign', 'print', 'if', 'call', 'select', 'store'][(k + ci) % 6],
                   'g': bool((k // 2) % 2), 'opt': (k // 3) % 3, 'rs': seed * 101 + k})
    for ci, cause in enumerate(STMT_CAUSES):
        for place in ('main', 'sub'):
            for handler in ('none', 'goto', 'resume_next'):
                cs.append({'kind': 'fault', 'scause': ci, 'place': place, 'handler': handler, 'depth': 0,
                           'form': 'stmt', 'g': (ci % 2 == 0), 'opt': ci % 3, 'rs': seed + ci})
    # totality: generated programs + mutants that the compiler accepts
    n = 60 if tier == 'quick' else 1200
    for i, b in enumerate(gen_cases_corpus(n, seed, opts={'max_stmts': 6}, with_repo=False)):
        cs.append({'kind': 'total', 'base': b, 'mseed': seed * 31 + i, 'nmut': 6 if tier == 'quick' else 12})
    ne = len(extreme_programs())
    for lo in range(0, ne, 4):
        cs.append({'kind': 'extreme', 'lo': lo, 'hi': min(ne, lo + 4)})
    # interrupt schedules
    n = 40 if tier == 'quick' else 400
    for i, b in enumerate(gen_cases_corpus(n, seed + 5, opts={'max_stmts': 4, 'max_depth': 1, 'input': True}, with_repo=False)):
        cs.append({'kind': 'irq', 'base': b, 'cfg': [i % 3, bool(i % 2)], 'rs': seed * 17 + i,
                   'exhaustive_upto': 300 if tier == 'quick' else 1200})
    for i, t in enumerate(IRQ_TEXTS):
        cs.append({'kind': 'irq', 'base': {'src': 'text', 'text': t, 'seed': i}, 'cfg': [i % 3, bool(i % 2)], 'rs': i,
                   'exhaustive_upto': 1500})
    for i, t in enumerate(IRQ_DISARMED):
        for g in (False, True):
            cs.append({'kind': 'irq', 'base': {'src': 'text', 'text': t, 'seed': i}, 'cfg': [i % 3, g], 'rs': i,
                       'exhaustive_upto': 1500, 'disarmed_after_output': True})
    return cs


IRQ_TEXTS = [
    "FOR i = 1 TO 5\nPRINT i\nNEXT\n",
    "INPUT a, b\nPRINT a + b\n",
    "GOSUB s\nPRINT 2\nEND\ns: PRINT 1\nRETURN\n",
    "x = f(3)\nPRINT x\nFUNCTION f (n)\nIF n <= 0 THEN f = 0 ELSE f = n + f(n - 1)\nEND FUNCTION\n",
    "DIM a(3)\na(1) = 5\nPRINT a(1); a(4)\n",
    "DATA 1,2\nREAD a, b, c\n",
    "ON ERROR GOTO h\nPRINT 1 / 0\nPRINT 2\nEND\nh: PRINT ERR\nRESUME NEXT\n",
    "ON ERROR RESUME NEXT\nx% = 32767\nx% = x% + 1\nPRINT x%\n",
    "CLS\nLOCATE 1, 1\nCOLOR 7, 0\nBEEP\nSOUND 440, 1\nPRINT \"a\"\n",
]


IRQ_DISARMED = [
    "ON ERROR GOTO h\nON ERROR GOTO 0\nFOR i = 1 TO 4\nPRINT i\nNEXT\nEND\nh: RESUME NEXT\n",
    "ON ERROR RESUME NEXT\nx = 1 / 0\nON ERROR GOTO 0\nPRINT 1\nPRINT 2\nGOSUB s\nEND\ns: PRINT 3\nRETURN\n",
    "ON ERROR GOTO h\ny% = 0\nx = 1 \\ y%\nON ERROR GOTO 0\nPRINT \"a\"\nPRINT \"b\"\nEND\nh: RESUME NEXT\n",
]


def state_digest(cpu, impl):
    h = hashlib.sha1()

    def cell(c):
        if c is None:
            return 'N'
        v = c.value
        if isinstance(v, (int, float, str)):
            return f'{c.type.name}:{v!r}'
        return f'{c.type.name}:ref:{id(getattr(v, "segment", None))}:{getattr(v, "index", None)}'
    h.update(repr(cpu.pc).encode())
    h.update('|'.join(cell(c) for c in cpu.stack).encode())
    f = cpu.cur_frame
    depth = 0
    while f is not None:
        h.update('|'.join(cell(c) for c in f.cells).encode())
        f = f.prev_frame
        depth += 1
    h.update('|'.join(cell(c) for c in cpu.globals_segment.cells).encode())
    h.update(repr(len(impl.h)).encode())
    dd = cpu.devices.get('data')
    if dd is not None:
        h.update(f'{dd.data_part},{dd.data_idx}'.encode())
    return h.hexdigest(), depth


def run_irq(case):
    import contextlib
    import io
    text, script, meta = cases.source_of(case['base'])
    cfg = tuple(case['cfg'])
    c = rt.compile_src(text, cfg[0], cfg[1])
    st = {'irq_points': 0, 'irq_points_handler_armed': 0, 'irq_programs': 0, 'irq_ticks_total': 0}
    viol = []
    if c.status != 'ok':
        return {'viol': [], 'stats': st, 'shape': None, 'nontrivial': False}
    mod = rt.load_module(c.modbytes)
    full = rt.run_module(mod, script, max_ticks=3000)
    n = full.ticks
    if full.outcome[0] in ('crash', 'tick_budget'):
        return {'viol': [], 'stats': st, 'shape': None, 'nontrivial': False}
    st['irq_programs'] = 1
    st['irq_ticks_total'] = n
    r = random.Random(case['rs'])
    if n <= case['exhaustive_upto']:
        ks = list(range(0, n + 1))
        st['irq_exhaustive_programs'] = 1
    else:
        ks = sorted(set(r.sample(range(n + 1), 64)) | {0, n})
    shapes = []
    for k in ks:
        m, impl = rt.make_machine(mod, script)
        cpu = m.cpu
        out = io.StringIO()
        try:
            with contextlib.redirect_stdout(out):
                for _ in range(k):
                    if cpu.halted:
                        break
                    cpu.tick()
                if cpu.halted or cpu.pc >= len(mod.code):
                    continue        # run already over: no boundary here
                armed = cpu.trap_target is not None
                if case.get('disarmed_after_output') and any(e[0] == 'out' for e in impl.h):
                    # this program executes ON ERROR GOTO 0 before its first PRINT: from then on no handler is
                    # armed whatever the CPU's own bookkeeping says
                    armed = False
                before, _d = state_digest(cpu, impl)
                os.kill(os.getpid(), signal.SIGINT)
                # the handler QvmCpu installed runs now (between two ticks)
                if not cpu.received_keyboard_interrupt:
                    viol.append(V('C07:irq:request-not-registered', f'k={k}: SIGINT did not set the request flag'))
                    continue
                cpu.tick()
                after, _d = state_digest(cpu, impl)
        except Exception as e:  # noqa: BLE001
            viol.append(V(f'C07:irq:crash:{rt.crash_sig(e)}', f'k={k}: {type(e).__name__}: {e}', text=text, k=k))
            continue
        if armed:
            st['irq_points_handler_armed'] += 1
            continue            # clause is stated for runs with no handler armed; only totality required
        st['irq_points'] += 1
        shapes.append(f'{shape_of(text)}@{k}')
        if not cpu.halted or cpu.halt_reason.name != 'TRAP' or cpu.last_trap.name != 'KEYBOARD_INTERRUPT':
            viol.append(V('C07:irq:not-stopped', f'k={k}: halted={cpu.halted} reason={cpu.halt_reason} '
                          f'last_trap={cpu.last_trap}', text=text, k=k, cfg=cfg))
        elif before != after:
            viol.append(V('C07:irq:instruction-executed', f'k={k}: state changed between the request and the stop',
                          text=text, k=k, cfg=cfg))
    # the same request while the machine is stopped *between two run() calls* (before the first one, at a breakpoint): the way
    # the debugger and the runner drive the CPU.  The next run() must stop with the keyboard-interrupt error at once.
    for k in sorted({0, 1, n // 3, n // 2, max(0, n - 1)} & set(range(n + 1))):
        m, impl = rt.make_machine(mod, script)
        cpu = m.cpu
        out = io.StringIO()
        count = [0]
        orig_tick = cpu.tick

        def counting_tick(_o=orig_tick, _c=count):
            _c[0] += 1
            return _o()
        cpu.tick = counting_tick
        bp = (lambda cpu_, _c=count, _k=k: _c[0] >= _k)
        try:
            with contextlib.redirect_stdout(out):
                if k > 0:
                    cpu.add_breakpoint(bp)
                    finished = cpu.run()
                    cpu.del_breakpoint(bp)
                    if finished or cpu.halted:
                        continue
                if cpu.trap_target is not None and not case.get('disarmed_after_output'):
                    continue
                if case.get('disarmed_after_output') and not any(e[0] == 'out' for e in impl.h):
                    continue
                before, _d = state_digest(cpu, impl)
                os.kill(os.getpid(), signal.SIGINT)
                cpu.run()
                after, _d = state_digest(cpu, impl)
        except Exception as e:  # noqa: BLE001
            viol.append(V(f'C07:irq:crash:{rt.crash_sig(e)}', f'run()-driven, k={k}: {type(e).__name__}: {e}', text=text, k=k))
            continue
        st['irq_points_between_runs'] = st.get('irq_points_between_runs', 0) + 1
        if not cpu.halted or cpu.halt_reason.name != 'TRAP' or cpu.last_trap is None or cpu.last_trap.name != 'KEYBOARD_INTERRUPT':
            viol.append(V('C07:irq:not-stopped:between-runs', f'request while stopped after {k} instructions, then run(): halted={cpu.halted} '
                          f'reason={cpu.halt_reason} last_trap={cpu.last_trap}; {len(impl.h)} device events', text=text, k=k, cfg=cfg))
        elif before != after:
            viol.append(V('C07:irq:instruction-executed:between-runs', f'k={k}: state changed between the request and the stop', text=text, k=k, cfg=cfg))
    sample = {'program': text[:300], 'ticks': n, 'interrupt_points': len(ks)}
    return {'viol': viol, 'stats': st, 'shape': shapes, 'nontrivial': bool(shapes), 'sample': sample}


def run_fault(case):
    r = random.Random(case['rs'])
    if 'cause' in case:
        cause = CAUSES[case['cause']]
    else:
        cause = STMT_CAUSES[case['scause']]
    text, expected = fault_program(cause, case['depth'], case['place'], case['handler'], case['form'], r)
    cfg = (case['opt'], case['g'])
    st = {'fault_programs_run': 0, 'fault_rejected': 0, 'fault_class_checked': 0, 'fault_with_handler': 0,
          'traps_seen': []}
    viol = []
    script = {'fail': {'pcspkr_sound': 'BAD_ARG_VALUE', 'fs_kill': 'FILE_NOT_FOUND', 'memory_bload': 'BAD_FILESPEC',
                       'memory_bsave': 'BAD_FILESPEC', 'terminal_set_mode': None}}
    script['fail'] = {k: v for k, v in script['fail'].items() if v}
    o = diff.observe(text, cfg, script, max_ticks=20000)
    name = cause[0]
    if o['status'] != 'ok':
        st['fault_rejected'] += 1
        if o['status'] == 'crash':
            st['fault_compile_crash'] = 1
        return {'viol': [], 'stats': st, 'shape': f"{name}|{case['place']}|{case['handler']}|{case['depth']}",
                'nontrivial': False, 'sample': None, 'note': o['brief']}
    st['fault_programs_run'] = 1
    oc = o['outcome']
    tag = f"{name}|{case['place']}|{case['handler']}|{case['form']}|d{case['depth']}|{rt.cfg_name(cfg)}"
    if oc[0] == 'crash':
        viol.append(V(f'C07:host-exception:{oc[1]}', f'{tag}: host exception escaped tick(): {o.get("crash_tb", "")[-400:]}',
                      text=text, cfg=cfg))
    elif oc[0] == 'tick_budget':
        st['fault_tick_budget'] = 1
    elif oc[0] not in ('halt', 'end_of_code', 'trap'):
        viol.append(V(f'C07:undefined-end:{oc[0]}', f'{tag}: {oc}', text=text, cfg=cfg))
    if oc[0] == 'trap':
        st['traps_seen'] = [oc[1]]
    if case['handler'] == 'none' and expected not in (None, 'ok') and oc[0] in ('halt', 'end_of_code', 'trap'):
        st['fault_class_checked'] = 1
        got = oc[1] if oc[0] == 'trap' else oc[0]
        if got != expected:
            viol.append(V(f'C07:trap-class:{name}:{got}', f'{tag}: cause {name} expected {expected}, got {oc}',
                          text=text, cfg=cfg))
    elif case['handler'] != 'none':
        st['fault_with_handler'] = 1
    sample = {'fault_program': text[:500], 'expected': expected, 'observed': oc, 'config': rt.cfg_name(cfg)}
    return {'viol': viol, 'stats': st, 'shape': f"{name}|{case['place']}|{case['handler']}|{case['depth']}|{case['form']}",
            'nontrivial': True, 'sample': sample}


def run_total(case):
    text, script, meta = cases.source_of(case['base'])
    r = random.Random(case['mseed'])
    st = {'totality_runs': 0, 'totality_texts': 0, 'totality_traps': 0, 'totality_tick_budget': 0, 'trap_kinds': []}
    viol = []
    texts = [text] + [c06.mutate(text, r, r.choice([1, 2, 3])) for _ in range(case['nmut'])]
    shapes = []
    # in-contract but hostile device inputs: empty, very long and non-code-page response lines, control characters, extended
    # keys from INKEY$, the extremes of RND and TIMER
    hostile = {'input': ['', '\u20ac\u0416', 'x' * 5000, '1' * 400, '\x00', 'a\tb', ' , , ', '"unclosed', '1e400,1e-400', '\u00e9', '-', '.', '7'] * 3,
               'inkey': ['', '\x00H', 'ab', '\u20ac', '\x1b', ''], 'rnd': [0.0, 0.99999994, 0.5] * 14,
               'timer': [0.0, 86399.99, 43200.5] * 14, 'peek': [0, 255] * 4}
    for j, t in enumerate(texts):
        cfg = rt.CONFIGS6[(case['mseed'] + j) % 6]
        if j % 2 == 1:
            st['hostile_scripts'] = st.get('hostile_scripts', 0) + 1
        o = diff.observe(t, cfg, hostile if j % 2 == 1 else script, max_ticks=30000)
        st['totality_texts'] += 1
        if o['status'] != 'ok' or 'outcome' not in o:
            continue
        st['totality_runs'] += 1
        shapes.append(shape_of(t))
        oc = o['outcome']
        if oc[0] == 'crash':
            viol.append(V(f'C07:host-exception:{oc[1]}', f'host exception escaped tick() at {rt.cfg_name(cfg)}: '
                          f'{(o.get("crash_tb") or "")[-400:]}', text=t, cfg=cfg))
        elif oc[0] == 'trap':
            st['totality_traps'] += 1
            st['trap_kinds'] = sorted(set(st['trap_kinds']) | {oc[1]})
        elif oc[0] == 'tick_budget':
            st['totality_tick_budget'] += 1
        elif oc[0] not in ('halt', 'end_of_code'):
            viol.append(V(f'C07:undefined-end:{oc[0]}', f'{oc}', text=t, cfg=cfg))
    return {'viol': viol, 'stats': st, 'shape': shapes, 'nontrivial': bool(shapes),
            'sample': {'program': texts[-1][:300]} if shapes else None}


# --- extreme arguments: every run-time library entry (builtin, conversion, device statement, PRINT / PRINT USING, the
# text-to-number parser behind VAL / READ / INPUT) fed boundary and absurd values; only totality is demanded ------------
EXT_NUM_VALUES = [
    ('%', '0'), ('%', '1'), ('%', '-1'), ('%', '255'), ('%', '256'), ('%', '-32768'), ('%', '32767'),
    ('&', '65535'), ('&', '65536'), ('&', '-2147483647 - 1'), ('&', '2147483647'), ('&', '100000'),
    ('!', '0.5'), ('!', '-0.5'), ('!', '1.5'), ('!', '3.4E+38'), ('!', '-3.4E+38'), ('!', '1E-38'), ('!', '16777216'), ('!', '1E+10'),
    ('#', '1D+300'), ('#', '-1D+300'), ('#', '1.7976931348623157D+308'), ('#', '4.9D-324'), ('#', '1D-300'), ('#', '0.1#'),
    ('#', '2147483647.5#'), ('#', '-2147483648.5#'), ('#', '32767.5#'), ('#', '1D+17'), ('#', '-0.5#'), ('#', '1D+38'), ('#', '123456789012345678#'),
]
EXT_NUM_STMTS = [
    'PRINT ABS({v})', 'PRINT CINT({v})', 'PRINT CLNG({v})', 'PRINT INT({v})', 'PRINT STR$({v})', 'PRINT CHR$({v})',
    'PRINT LEN(SPACE$({v}))', 'PRINT LEN(STRING$({v}, 65))', 'PRINT STRING$(3, {v})', 'PRINT LEFT$("abc", {v})',
    'PRINT RIGHT$("abc", {v})', 'PRINT MID$("abc", {v})', 'PRINT MID$("abc", 1, {v})', 'PRINT MID$("abc", {v}, {v})',
    'PRINT INSTR({v}, "abc", "b")', 'PRINT NOT {v}', 'PRINT -{v}', 'PRINT {v} ^ 2', 'PRINT 2 ^ {v}', 'PRINT {v} ^ {v}',
    'PRINT {v} ^ 0.5', 'PRINT {v} \\ 3', 'PRINT 3 \\ {v}', 'PRINT {v} MOD 7', 'PRINT 7 MOD {v}', 'PRINT {v} AND 5', 'PRINT {v} * {v}',
    'PRINT {v} + {v}', 'PRINT {v} - (-{v})', 'PRINT {v} / 3', 'PRINT 1 / {v}', 'PRINT {v} = {v}', 'PRINT PEEK({v})', 'PRINT RND({v})',
    'LOCATE {v}, {v}', 'LOCATE , , {v}', 'COLOR {v}', 'COLOR , {v}', 'COLOR {v}, {v}, {v}', 'WIDTH {v}', 'WIDTH , {v}', 'SOUND {v}, {v}', 'POKE {v}, {v}',
    'DEF SEG = {v}', 'SCREEN {v}', 'VIEW PRINT {v} TO {v}', 'RANDOMIZE {v}', 'DIM zd{n}({v})', 'DIM ze{n}({v} TO {v})', 'zarr({v}) = 1',
    'PRINT zarr({v})', 'PRINT {v}', 'PRINT {v},', 'PRINT {v}; {v}', 'zi% = {v}', 'zl& = {v}', 'zf! = {v}', 'zg# = {v}',
    'FOR zk{n} = {v} TO {v}: EXIT FOR: NEXT', 'FOR zm{n}% = 1 TO 2 STEP {v}: EXIT FOR: NEXT', 'SELECT CASE {v}: CASE 1 TO 2: CASE IS > 5: END SELECT',
    'IF {v} THEN PRINT 1', 'WHILE {v} AND 0: WEND', 'PRINT USING "###"; {v}', 'PRINT USING "##.##"; {v}', 'PRINT USING "+#,###.#-"; {v}',
    'PRINT USING "#"; {v}; {v}', 'PRINT USING ".##"; {v}', 'PRINT USING "#.####################"; {v}', 'PRINT USING "&"; STR$({v})',
    'PRINT USING "**$##.##^^^^"; {v}', 'PRINT USING "_##"; {v}', 'PRINT USING "##"; {v},', 'PRINT VAL(STR$({v}))', 'PRINT LEN(STR$({v}))',
    'zsubv ({v})', 'PRINT zfunv({v} + 0)', 'BEEP: CLS',
]
EXT_STR_VALUES = [
    '""', '"a"', '" "', '"1e400"', 'STRING$(400, "9")', '"-" + STRING$(400, "9")', '"." + STRING$(400, "0") + "1"',
    '"1" + STRING$(400, "0") + "e-400"', '"1e-400"', '"&H"', '"&HFFFF"', '"&HFFFFFFFFFF"', '"&O777"', '"1d"', '"1e+"', '"+"', '"-"', '"."',
    '"1..2"', '"nan"', '"inf"', '"-inf"', '"1_0"', '"1,5"', '" 12 "', '"12abc"', '"1e5"', '"1D5"', '"--1"', '"1e400x"', '"0x10"',
    'CHR$(0)', 'CHR$(255)', 'CHR$(13) + CHR$(10)', 'STRING$(300, "x")', 'STRING$(32767, "y")', 'STRING$(32767, "y") + STRING$(32767, "y")',
    '"40000%"', '"1#"', '"1!"', '"1&"', '"1%"', '".5"', '"5."', '"1e"', '"e5"', '"d"', '"1 2"', '"9" + STRING$(308, "0")',
    '"1" + STRING$(309, "0")', '"0." + STRING$(330, "0") + "1"',
]
EXT_STR_STMTS = [
    'PRINT LEN({s})', 'PRINT ASC({s})', 'PRINT VAL({s})', 'PRINT LEN(UCASE$({s}))', 'PRINT LEN(LCASE$({s}))', 'PRINT LEN(LTRIM$({s}))',
    'PRINT LEN(RTRIM$({s}))', 'PRINT LEN(LEFT$({s}, 2))', 'PRINT LEN(RIGHT$({s}, 2))', 'PRINT LEN(MID$({s}, 2, 3))', 'PRINT INSTR({s}, "a")',
    'PRINT INSTR("a", {s})', 'PRINT INSTR({s}, {s})', 'PRINT LEN({s} + {s})', 'PRINT {s} < "a"', 'PRINT {s} = {s}', 'PRINT LEN(STRING$(2, {s}))',
    'PRINT USING "&"; LEFT$({s}, 5)', 'PRINT USING "!"; {s}', 'PRINT USING "\\  \\"; LEFT$({s}, 9)', 'PRINT USING LEFT$({s}, 20); 1',
    'PRINT USING LEFT$({s}, 20); "x"', 'PLAY LEFT$({s}, 30)', 'KILL LEFT$({s}, 30)', 'zi% = VAL({s})', 'zl& = VAL({s})', 'zf! = VAL({s})',
    'zg# = VAL({s})', 'PRINT LEFT$({s}, 10)', 'SELECT CASE {s}: CASE "a" TO "b": END SELECT', 'zsubs {s}', 'PRINT CINT(VAL({s}))',
    'PRINT STR$(VAL({s}))', 'BLOAD LEFT$({s}, 12), 0',
]
EXT_TEXT_ITEMS = ['1e400', '9' * 400, '-' + '9' * 400, '.' + '0' * 400 + '1', '1' + '0' * 400 + 'e-400', '1e-400', '&H', '&HFFFF', '1d', '1e+',
                  '+', '-', '.', '1..2', 'nan', 'inf', '-inf', '1_0', '12abc', '1D5', '--1', '40000%', '1#', '.5', '5.', '1e', 'e5',
                  '9' + '0' * 308, '1' + '0' * 309, '0.' + '0' * 330 + '1', '32767.5', '-32768.5', '2147483647.5', '3.5e38', '1.8d308',
                  '\u0661\u0662', '\uff11', '1\u00a0', '\u00b2']
EXT_TAIL = ('END\nzh: zerrs% = zerrs% + 1\nRESUME NEXT\nSUB zsubv (p#)\nPRINT p#\nEND SUB\nFUNCTION zfunv# (p!)\nzfunv# = p!\nEND FUNCTION\n'
            'SUB zsubs (p$)\nPRINT LEN(p$)\nEND SUB\n')


def extreme_programs():
    """-> list of (tag, text, script, handler)"""
    out = []
    for vi, (t, v) in enumerate(EXT_NUM_VALUES):
        lines = ['ON ERROR GOTO zh', 'DIM zarr(5)', f'zv{t} = {v}']
        for n, stt in enumerate(EXT_NUM_STMTS):
            lines.append(stt.replace('{v}', f'zv{t}').replace('{n}', str(n)))
        out.append((f'num|{t}|{v}', '\n'.join(lines) + '\nPRINT "done"; zerrs%\n' + EXT_TAIL, {}, True))
    for si, sv in enumerate(EXT_STR_VALUES):
        lines = ['ON ERROR GOTO zh', f'zs$ = {sv}']
        for n, stt in enumerate(EXT_STR_STMTS):
            lines.append(stt.replace('{s}', 'zs$').replace('{n}', str(n)))
        out.append((f'str|{sv[:30]}', '\n'.join(lines) + '\nPRINT "done"; zerrs%\n' + EXT_TAIL, {}, True))
    items = [x.encode().decode('unicode_escape') for x in EXT_TEXT_ITEMS]
    for t in '%&!#$':
        # INPUT: every pool item as a response (bad ones are answered with Redo and the next one is read), then a good one
        lines = ['ON ERROR GOTO zh'] + [f'INPUT zq{t}: PRINT zq{t}' for _ in range(6)]
        out.append((f'input|{t}', '\n'.join(lines) + '\nPRINT "done"; zerrs%\n' + EXT_TAIL, {'input': items + ['1'] * 8}, True))
        ascii_items = [x for x in items if all(32 <= ord(c) < 127 for c in x)]
        lines = ['ON ERROR GOTO zh'] + [f'READ zq{t}: PRINT zq{t}' for _ in ascii_items] + ['DATA ' + ', '.join(ascii_items)]
        out.append((f'read|{t}', '\n'.join(lines) + '\nPRINT "done"; zerrs%\n' + EXT_TAIL, {}, True))
    # a user FUNCTION has returned (its result pending) before the statement fails under an armed handler; afterwards the
    # routine simply runs off its end / returns (no END in between): whatever was left on the stack meets a ret
    fn = 'FUNCTION zf& (n&)\nzt& = n& * 2\nzf& = zt&\nEND FUNCTION\n'
    tails = [
        'ON ERROR RESUME NEXT\nz& = 0\nx& = zf&(7) + 10 \\ z&\nPRINT "after"; x&\n' + fn,
        'ON ERROR GOTO zh\nx& = zf&(7) + 10 \\ z&\nPRINT "after"\nGOTO zfin\nzh: RESUME NEXT\nzfin: PRINT "fin"\n' + fn,
        'ON ERROR RESUME NEXT\nzs\nPRINT "back"\nSUB zs\nx& = zf&(7) + 10 \\ z&\nPRINT "in"\nEND SUB\n' + fn,
        'ON ERROR RESUME NEXT\nx& = zf&(1) + zf&(zf&(2)) * (10 \\ z&)\nGOSUB zg\nPRINT "back"\nGOTO zfin\nzg: y& = zf&(3) - 10 \\ z&\nRETURN\nzfin: PRINT "fin"\n' + fn,
        'ON ERROR GOTO zh\nFOR i% = 1 TO 2\nPRINT zf&(i% + 0) + 10 \\ z&\nNEXT\nGOTO zfin\nzh: RESUME NEXT\nzfin: PRINT "fin"\n' + fn,
    ]
    for ti, t_ in enumerate(tails):
        for rep in range(3):
            out.append((f'pending-function-result|{ti}|{rep}', t_, {}, True))
    # the same single statements with no handler armed (the default reporting path), a rotating sample
    k = 0
    for vi, (t, v) in enumerate(EXT_NUM_VALUES):
        for n, stt in enumerate(EXT_NUM_STMTS):
            k += 1
            if k % 23 == 0:
                text = f'DIM zarr(5)\nzv{t} = {v}\n' + stt.replace('{v}', f'zv{t}').replace('{n}', str(n)) + '\nPRINT "after"\n' + EXT_TAIL
                out.append((f'num1|{t}|{v}|{n}', text, {}, False))
    for si, sv in enumerate(EXT_STR_VALUES):
        for n, stt in enumerate(EXT_STR_STMTS):
            k += 1
            if k % 17 == 0:
                text = f'zs$ = {sv}\n' + stt.replace('{s}', 'zs$') + '\nPRINT "after"\n' + EXT_TAIL
                out.append((f'str1|{sv[:20]}|{n}', text, {}, False))
    return out


_EXT = None


def run_extreme(case):
    global _EXT
    if _EXT is None:
        _EXT = extreme_programs()
    st = {'extreme_programs': 0, 'extreme_runs': 0, 'extreme_traps_resumed': 0, 'extreme_rejected': 0, 'totality_runs': 0,
          'extreme_tick_budget': 0}
    viol = []
    shapes = []
    sample = None
    for idx in range(case['lo'], case['hi']):
        tag, text, script, handler = _EXT[idx]
        cfgs = [(idx % 3, True)] if handler else [(idx % 3, bool(idx % 2))]
        for cfg in cfgs:
            full = dict(cases.gen_script(idx))
            full.update(script)
            o = diff.observe(text, cfg, full, max_ticks=400000)
            st['extreme_programs'] += 1
            if o['status'] == 'crash':
                viol.append(V(f"C07:extreme:compile-crash:{o['brief'][1] if len(o['brief']) > 1 else ''}", f'{tag}: {o["brief"]}', text=text[:3000], cfg=cfg))
                continue
            if o['status'] != 'ok' or 'outcome' not in o:
                st['extreme_rejected'] += 1
                viol.append(V('C07:extreme:program-rejected', f'{tag}: the harness program is not accepted: {o["brief"]}', text=text[:3000]))
                continue
            st['extreme_runs'] += 1
            st['totality_runs'] += 1
            shapes.append(f'extreme|{tag}|{rt.cfg_name(cfg)}')
            oc = o['outcome']
            if oc[0] == 'crash':
                viol.append(V(f'C07:host-exception:{oc[1]}', f'extreme arguments [{tag}] at {rt.cfg_name(cfg)}: host exception escaped '
                              f'tick(): {(o.get("crash_tb") or "")[-500:]}', text=text[:3000], cfg=cfg))
            elif oc[0] == 'tick_budget':
                st['extreme_tick_budget'] += 1
            elif oc[0] not in ('halt', 'end_of_code', 'trap'):
                viol.append(V(f'C07:undefined-end:{oc[0]}', f'{tag}: {oc}', text=text[:3000], cfg=cfg))
            elif handler and oc[0] == 'trap' and oc[1] not in ('DEVICE_ERROR:OP_FAILED',):
                # with a handler armed and RESUME NEXT every language error is resumed; ending in a trap is only legitimate
                # when the script runs dry (INPUT) - reported as a note through the counter, not a verdict
                st['extreme_ended_in_trap'] = st.get('extreme_ended_in_trap', 0) + 1
            if sample is None:
                sample = {'extreme': tag, 'outcome': oc, 'program_head': text[:300]}
    return {'viol': viol, 'stats': st, 'shape': shapes, 'nontrivial': bool(shapes), 'sample': sample}


def run_case(case):
    k = case['kind']
    if k == 'extreme':
        return run_extreme(case)
    if k == 'fault':
        return run_fault(case)
    if k == 'irq':
        return run_irq(case)
    return run_total(case)
