"""C01 - compiled programs do what their QBASIC source says (history + executable reference model)."""
import math

from .. import rt
from ..gen import progs, render
from ..ref import interp
from .. import cases as casesmod
from .common import shape_of, V

PROP = 'C01'
LEVEL = 'exploration'
RULE = ('typed random programs over the IR (declarations, all operators with implicit conversions, builtin functions, PRINT, '
        'INPUT, READ/DATA/RESTORE, IF/ELSEIF/one-line IF, SELECT, FOR/WHILE/DO, EXIT, GOTO/GOSUB, SUB/FUNCTION with by-reference and '
        'by-value arguments, recursion, arrays, records, CONST, DEFtype, STATIC/SHARED, device statements) x 1-2 input scripts x the '
        'six configurations; the device-boundary history (typed PRINT arguments, inputs consumed, device calls, RND/TIMER/INKEY), '
        'the outcome (halt / error class) and with -g the line of the failing statement are compared with RefQB running the same '
        'IR; non-trivial = accepted program with >=1 compared event; distinct = shape hash')
ASSUMPTIONS = ['RefQB is trusted for the generated subset; semantic grey zones are not generated (DESIGN §6)',
               'PRINT text is not compared here (C16/C17 own it), only the decoded argument protocol']
REQUIRED_COUNTERS = ['programs', 'runs_compared', 'events_compared', 'typed_print_items', 'error_outcomes_compared']
CASE_TIMEOUT = 600

ERRCLASS = {'overflow': 'INVALID_CELL_VALUE', 'div0': 'DIVISION_BY_ZERO', 'subscript': 'INDEX_OUT_OF_RANGE',
            'illegal': 'INVALID_OPERAND_VALUE', 'out-of-data': 'DEVICE_ERROR:OP_FAILED', 'read-type': 'DEVICE_ERROR:BAD_ARG_TYPE',
            'device': 'DEVICE_ERROR:BAD_ARG_VALUE'}


def norm_val(v):
    if isinstance(v, float):
        if v != v:
            return 'nan'
        if v == 0:
            return 0.0
    return v


def norm_hist(h):
    out = []
    for e in h:
        k = e[0]
        if k in ('out', 'input_begin', 'input_end'):
            continue
        if k == 'print':
            items = []
            for it in (e[1] or []):
                if isinstance(it, list) and it[0] == 'v':
                    items.append(['v', it[1], norm_val(it[2])])
                else:
                    items.append(it)
            out.append(['print', items])
        elif k == 'in':
            out.append(['in', e[2]])
        else:
            out.append([norm_val(x) for x in e])
    return out


UNIT_VALS = {'%': [0, 1, 2, 3, 7, -3, 100, 255, 12345, -32767, 32767],
             '&': [0, 1, 2, 3, -3, 70000, -70000, 65536, 2147483647, -2147483647],
             '!': [0.0, 0.5, 1.5, 2.5, -2.5, 3.0, 0.1, 100.25, 16777216.0, 1e10, -1e-3, 0.7, 3.3, 0.001, 123.456, 0.2],
             '#': [0.0, 0.5, 1.5, 2.5, -2.5, 3.0, 0.1, 100.25, 1e15, 123456789.125, -1e-9],
             '$': ['', 'a', 'Hello', 'abc def', '12', ' x ', 'ABCDEFGHIJKLMNO', '\u00e9', '\u00e2', '\u00c7a', '\u00ff', 'a\u00e9', '\u00c9t\u00e9', '\u2554\u2550']}
UNIT_BIN = ['+', '-', '*', '/', '\\', 'MOD', '=', '<>', '<', '>', '<=', '>=', 'AND', 'OR', 'XOR', 'EQV', 'IMP']
UNIT_FUNCS = [('ABS', 'n'), ('CINT', 'n'), ('CLNG', 'n'), ('INT', 'n'), ('STR$', 'i'), ('NOT', 'n'), ('NEG', 'n'), ('LEN', 's'),
              ('ASC', 's'), ('UCASE$', 's'), ('LCASE$', 's'), ('LTRIM$', 's'), ('RTRIM$', 's'), ('VAL', 's'), ('CHR$', 'c'),
              ('SPACE$', 'c'), ('LEFT$', 'sn'), ('RIGHT$', 'sn'), ('MID$', 'sn'), ('MID$3', 'snn'), ('INSTR', 'ss'),
              ('INSTR3', 'nss'), ('STRING$', 'nc'), ('STRING$s', 'ns')]


_COMBOS = []


def unit_combos():
    """Every binary operator x ordered operand type pair, and every builtin x numeric argument type, once."""
    if not _COMBOS:
        for op in UNIT_BIN:
            for ta in '%&!#':
                for tb in '%&!#':
                    if op == '/' and '&' in (ta, tb):
                        continue          # LONG division result type is a dialect grey zone
                    _COMBOS.append(('bin', op, ta, tb))
        for op in ['+', '=', '<>', '<', '>', '<=', '>=']:
            _COMBOS.append(('bin', op, '$', '$'))
        for f, sig in UNIT_FUNCS:
            for nt in ('%&!#' if ('n' in sig or 'i' in sig) else '%'):
                _COMBOS.append(('fn', f, sig, nt))
        import random as _r
        _r.Random(12345).shuffle(_COMBOS)
    return _COMBOS


def unit_program(r, k):
    """A small IR program: operands in variables of every type, one operator or builtin per statement, used both as a
    PRINT argument and in typed contexts (assignment to every numeric type, argument of a SUB, array index)."""
    def lit(t, v):
        if t == '$':
            return ('lit', '$', v)
        e = ('lit', t, abs(v))
        return ('un', '-', e) if v < 0 else e
    main = []
    vars_ = {}
    literal_mode = (k // 6) % 2 == 1     # every other program: the operands are literals (a compiler may evaluate those itself)
    for t in '%&!#$':
        for i in range(2):
            nm = f'zu{"ilsdt"["%&!#$".index(t)]}{i}{t}'
            v = r.choice(UNIT_VALS[t])
            main.append(['let', ('var', nm, t), lit(t, v), False])
            if literal_mode:
                le = lit(t, v)
                vars_.setdefault(t, []).append(('par', le) if le[0] == 'un' else le)
            else:
                vars_.setdefault(t, []).append(('var', nm, t))
    main.append(['dim', 'dim', 'zuarr', '&', [(None, ('lit', '%', 5))]])
    stmts = []
    combos = unit_combos()
    for j_ in range(6):
        kind, a1, a2, a3 = combos[(k * 6 + j_) % len(combos)]
        if kind == 'bin':
            op, ta, tb = a1, a2, a3
            e = ('bin', op, r.choice(vars_[ta]), r.choice(vars_[tb]))
        else:
            f, sig, nt = a1, a2, a3
            args = []
            for ch in sig:
                if ch == 'n':
                    args.append(r.choice(vars_[nt]))
                elif ch == 'i':
                    args.append(r.choice(vars_[nt if nt in '%&' else '%']))
                elif ch == 's':
                    args.append(r.choice(vars_['$']))
                elif ch == 'c':
                    args.append(('lit', '%', r.choice([0, 1, 3, 32, 65, 255])))
            if f == 'NOT':
                e = ('un', 'NOT', args[0])
            elif f == 'NEG':
                e = ('un', '-', args[0])
            elif f in ('LEFT$', 'RIGHT$'):
                e = ('bcall', f, [args[0], ('lit', '%', r.choice([0, 1, 2, 5, 20]))])
            elif f == 'MID$':
                e = ('bcall', 'MID$', [args[0], ('lit', '%', r.choice([1, 2, 5, 20]))])
            elif f == 'MID$3':
                e = ('bcall', 'MID$', [args[0], ('lit', '%', r.choice([1, 2, 4])), ('lit', '%', r.choice([0, 1, 3, 20]))])
            elif f == 'INSTR3':
                e = ('bcall', 'INSTR', [('lit', '%', r.choice([1, 2, 3])), args[1], args[2]])
            elif f in ('STRING$', 'STRING$s'):
                e = ('bcall', 'STRING$', [('lit', '%', r.choice([0, 1, 3])), args[1]])
            else:
                e = ('bcall', f, args)
        from ..gen.ir import etype
        t = etype(e)
        stmts.append(['print', [['e', e]]])
        pe = ('par', e)          # the renderer does not parenthesise by precedence
        if t != '$':
            tt = r.choice('%&!#')
            tgt = ('var', f'zur{"ilsd"["%&!#".index(tt)]}{tt}', tt)
            stmts.append(['let', tgt, e, False])
            stmts.append(['print', [['e', ('bin', '+', tgt, ('lit', '%', 1))]]])
            if r.random() < 0.4:
                stmts.append(['call', 'zusub', [pe], False])
            if r.random() < 0.3:
                stmts.append(['let', ('elem', 'zuarr', '&', [('bin', 'MOD', ('bcall', 'ABS', [('bcall', 'CLNG', [('bin', 'MOD', pe, ('lit', '%', 5))])]), ('lit', '%', 5))]), ('lit', '&', 7), False])
        else:
            stmts.append(['let', ('var', 'zurt$', '$'), ('bin', '+', pe, ('lit', '$', '!')), False])
            stmts.append(['print', [['e', ('var', 'zurt$', '$')]]])
    procs = [{'kind': 'sub', 'name': 'zusub', 'rtype': None, 'params': [('zp#', '#', 0)], 'pstyle': [False], 'static': False,
              'body': [['print', [['e', ('bin', '*', ('var', 'zp#', '#'), ('lit', '%', 2))]]]]}]
    return {'deftype': None, 'types': [], 'main': main + stmts, 'procs': procs, 'features': ['unit', 'unit-literal-operands'] if literal_mode else ['unit']}


# operator precedence and associativity: flat expressions "a op1 b op2 c" (every ordered pair of binary operators), with a
# leading NOT / unary minus, and seeded 4-operand chains; the IR tree is built from the language's precedence table and
# rendered without parentheses, so the compiler's grammar has to group the same way
PREC_OPS = ['+', '-', '*', '/', '\\', 'MOD', '=', '<>', '<', '>', '<=', '>=', 'AND', 'OR', 'XOR', 'EQV', 'IMP']
PREC_VALUES = [(7, 3, 2, 5), (9, 4, 2, 3), (20, 6, 4, 3), (5, 2, 1, 7), (12, 5, 3, 2)]
_PREC = []


def _prec_tree(ops, names):
    """Parse the flat operand/operator sequence with the table (left-associative precedence climbing)."""
    from ..gen.ir import PREC
    operands = [('var', n, '%') for n in names]
    # shunting: repeatedly reduce the tightest-binding leftmost operator
    ops = list(ops)
    while ops:
        best = min(range(len(ops)), key=lambda i: (PREC[ops[i]], i))
        node = ('bin', ops[best], operands[best], operands[best + 1])
        operands[best:best + 2] = [node]
        del ops[best]
    return operands[0]


def prec_exprs():
    if not _PREC:
        import random as _r
        names = ['zpa%', 'zpb%', 'zpc%', 'zpd%']
        for o1 in PREC_OPS:
            for o2 in PREC_OPS:
                _PREC.append(('pair', _prec_tree([o1, o2], names[:3])))
        from ..gen.ir import PREC
        for o1 in PREC_OPS:
            t = _prec_tree([o1], names[:2])
            # NOT binds looser than arithmetic and relational operators, tighter than the logical ones
            if PREC[o1] <= 7:
                _PREC.append(('not', ('un', 'NOT', t)))
            else:
                _PREC.append(('not', ('bin', o1, ('un', 'NOT', ('var', names[0], '%')), ('var', names[1], '%'))))
            _PREC.append(('neg', ('bin', o1, ('un', '-', ('var', names[0], '%')), ('var', names[1], '%'))))
        rr = _r.Random(4242)
        for _ in range(260):
            _PREC.append(('chain', _prec_tree([rr.choice(PREC_OPS) for _i in range(3)], names)))
    return _PREC


def prec_program(k, per=12):
    """IR program printing `per` flat expressions; operand values are chosen so that the reference run has no error."""
    exprs = prec_exprs()[k * per:(k + 1) * per]
    main = []
    names = ['zpa%', 'zpb%', 'zpc%', 'zpd%']
    def ref_value(e, vals):
        probe = {'deftype': None, 'types': [], 'procs': [], 'features': [],
                 'main': [['let', ('var', n, '%'), ('lit', '%', v), False] for n, v in zip(names, vals)] + [['print', [['e', e]]]]}
        try:
            h, oc, _t = interp.Interp(probe, {}).run()
        except Exception:
            return None
        return None if oc[0] == 'error' else repr(h)

    def regroup(e):
        # the other way of grouping a two-operator expression (what a grammar with the wrong table would compute)
        if e[0] == 'bin' and e[2][0] == 'bin' and e[3][0] == 'var':
            return ('bin', e[2][1], e[2][2], ('bin', e[1], e[2][3], e[3]))
        if e[0] == 'bin' and e[3][0] == 'bin' and e[2][0] == 'var':
            return ('bin', e[3][1], ('bin', e[1], e[2], e[3][2]), e[3][3])
        return None
    for kind, e in exprs:
        chosen = None
        alt = regroup(e)
        for vals in PREC_VALUES:
            v1 = ref_value(e, vals)
            if v1 is None:
                continue
            if chosen is None:
                chosen = vals
            if alt is not None and ref_value(alt, vals) != v1:
                chosen = vals          # values under which the two groupings print different results
                break
        if chosen is None:
            continue
        for n, v in zip(names, chosen):
            main.append(['let', ('var', n, '%'), ('lit', '%', v), False])
        main.append(['print', [['e', e]]])
        # the same expression in a typed context and as a condition
        main.append(['let', ('var', 'zpr#', '#'), e, False])
        main.append(['print', [['e', ('var', 'zpr#', '#')]]])
    return {'deftype': None, 'types': [], 'main': main, 'procs': [], 'features': ['precedence']}


def n_prec_programs(per=12):
    return (len(prec_exprs()) + per - 1) // per


# argument forms: which spellings of an argument alias the caller's location (a bare lvalue) and which do not
ARG_LOCS = {
    'var': ('zx{t}', ''),
    'elem': ('za{t}(2)', 'DIM za{t}(1 TO 3)\n'),
    'elem2': ('zm{t}(1, 0)', 'DIM zm{t}(1 TO 2, 0 TO 1)\n'),
    'field': ('zr.f{n}', 'DIM zr AS zt\n'),
    'recelem': ('zq(2).f{n}', 'DIM zq(1 TO 2) AS zt\n'),
    'shared': ('zg{t}', 'DIM SHARED zg{t}\n'),
}
ARG_FORMS = [('{l}', True), ('({l})', False), ('(({l}))', False), ('{l} + {zero}', False), ('{one} * {l}', False),
             ('-(-{l})', False), ('({l}) + {zero}', False), ('+{l}', False), ('+({l})', False), ('{l} - {zero}', False)]
ARG_STR_FORMS = [('{l}', True), ('({l})', False), ('{l} + ""', False), ('"" + {l}', False), ('(({l}))', False)]


# small programs with hand-computed results for corners the generator does not reach
DIRECTED = [
    # a constant's value is fixed where it is defined, also when a routine has a constant of its own with a name it uses
    ("CONST p = 2\nCONST q = p + 1\nPRINT q\nzs\nSUB zs\nCONST p = 10\nPRINT q\nPRINT p\nEND SUB\n", [3, 3, 10]),
    ("CONST a$ = \"x\"\nCONST b$ = a$ + \"y\"\nPRINT b$\nzs\nSUB zs\nCONST a$ = \"LOCAL\"\nPRINT b$\nPRINT a$\nEND SUB\n", ['xy', 'xy', 'LOCAL']),
    ("CONST k = 5\nzs\nPRINT k\nSUB zs\nCONST k = 6\nPRINT k\nEND SUB\n", [6, 5]),
    # a module-level handler works on the module's variables even when the error happened inside a procedure
    ("ON ERROR GOTO zh\nzcount% = 0\nzs\nPRINT zcount%\nEND\nzh: zcount% = zcount% + 1\nRESUME NEXT\nSUB zs\nzcount% = 50\nx% = 1 \\ zz%\nx% = 2 \\ zz%\nPRINT zcount%\nEND SUB\n",
     [50, 2]),
]


# identifiers that begin with a keyword (rem1, data2, to5, endx$ ...) are ordinary names wherever they stand
KW_PREFIXES = ['rem', 'data', 'then', 'else', 'to', 'step', 'next', 'end', 'if', 'or', 'and', 'not', 'mod', 'print', 'dim', 'as', 'let',
               'call', 'sub', 'goto', 'gosub', 'on', 'error', 'resume', 'input', 'using', 'for', 'while', 'wend', 'do', 'loop', 'until',
               'case', 'select', 'is', 'exit', 'return', 'read', 'restore', 'const', 'type', 'shared', 'static', 'def', 'seg', 'cls',
               'beep', 'fn', 'len', 'abs', 'int', 'val', 'timer', 'rnd', 'err', 'str', 'xor', 'eqv', 'imp', 'stop', 'system', 'swap',
               'key', 'name', 'pos', 'loc', 'line', 'open', 'close', 'get', 'put', 'field', 'files', 'kill', 'view', 'width', 'screen',
               'color', 'locate', 'sound', 'play', 'poke', 'peek', 'randomize', 'declare', 'function', 'integer', 'long', 'single',
               'double', 'string', 'any', 'common', 'erase', 'redim', 'option', 'base', 'tab', 'spc']


def kwident_program(k):
    """One program per keyword: the name in every statement position, with what it must print."""
    kw = KW_PREFIXES[k]
    lines, exp = [], []
    for suf in ('1', 'x', '1%', 'x$'):
        nm = kw + suf
        val, pv = ('"s"', 's') if nm.endswith('$') else ('5', 5)
        lines += [f'{nm} = {val}', f'PRINT {nm}']
        exp.append(pv)
        lines += [f'LET {nm} = {val}', f'PRINT {nm}']
        exp.append(pv)
        lines += [f'zq = 1: {nm} = {val}: PRINT {nm}']
        exp.append(pv)
        lines += [f'IF zq = 1 THEN {nm} = {val} ELSE {nm} = {val}', f'PRINT {nm}']
        exp.append(pv)
        lines += [f'zlab{len(lines)}: {nm} = {val}', f'PRINT {nm}']
        exp.append(pv)
    lines += [f'FOR {kw}i = 1 TO 2', f'NEXT {kw}i', f'PRINT {kw}i']
    exp.append(3)
    lines += [f'{kw}s 4', 'END', f'SUB {kw}s ({kw}p)', f'PRINT {kw}p', 'END SUB']
    exp.append(4)
    return '\n'.join(lines) + '\n', exp


def run_kwident(case):
    st = {'unit_programs': 0, 'programs': 0, 'runs_compared': 0, 'events_compared': 0, 'typed_print_items': 0,
          'error_outcomes_compared': 0, 'trap_lines_compared': 0, 'rejected': 0, 'ref_script_exhausted': 0, 'features': ['keyword-prefixed-names'],
          'error_kinds': [], 'keyword_prefixed_names': 0}
    viol = []
    shapes = []
    for k in range(case['lo'], case['hi']):
        text, exp = kwident_program(k)
        for cfg in [rt.CONFIGS6[k % 6], rt.CONFIGS6[(k + 3) % 6]]:
            c = rt.compile_src(text, cfg[0], cfg[1])
            cn = rt.cfg_name(cfg)
            if c.status != 'ok':
                viol.append(V(f'C01:valid-program-rejected:{c.status}:{c.sig or c.err_code}', f'{cn} names beginning with the keyword '
                              f'{KW_PREFIXES[k].upper()}: {c.msg} (line {rt.line_of(text, c.loc)})', text=text))
                st['rejected'] += 1
                break
            r = rt.run_module(rt.load_module(c.modbytes), {}, max_ticks=20000)
            got = [e[1][0][2] for e in r.history if e[0] == 'print' and e[1]]
            st['programs'] += 1
            st['runs_compared'] += 1
            st['events_compared'] += len(got)
            st['typed_print_items'] += len(got)
            st['keyword_prefixed_names'] += 4
            shapes.append(f'kwident|{k}|{cn}')
            if got != exp or r.outcome != ['halt']:
                viol.append(V('C01:keyword-prefixed-name', f'{cn}: names beginning with {KW_PREFIXES[k].upper()}: printed {got}, the '
                              f'source says {exp}; run ended {r.outcome}', text=text))
    return {'viol': viol, 'stats': st, 'shape': shapes, 'nontrivial': True, 'sample': {'source': kwident_program(case['lo'])[0][:300]}}


# loops that are active at the same time without being nested in the text: a FOR body that GOSUBs to a routine with loops of
# its own (same counter type, same nesting depth, other limits and steps), two levels deep, and with float counters
DIRECTED += [
    ("FOR i% = 1 TO 3\nGOSUB inner\nPRINT i%\nNEXT\nEND\ninner: FOR j% = 10 TO 30 STEP 10\nPRINT j%\nNEXT\nRETURN\n",
     [10, 20, 30, 1, 10, 20, 30, 2, 10, 20, 30, 3]),
    ("FOR i% = 6 TO 1 STEP -3\nGOSUB r1\nPRINT i%\nNEXT\nPRINT i%\nEND\nr1: FOR j% = 1 TO 2\nGOSUB r2\nNEXT\nRETURN\n"
     "r2: FOR k% = 100 TO 300 STEP 100\nzt& = zt& + k%\nNEXT\nPRINT zt&\nRETURN\n",
     [600, 1200, 6, 1800, 2400, 3, 0]),
    ("FOR a! = 0.5 TO 1.5 STEP 0.5\nGOSUB rf\nPRINT a!\nNEXT\nEND\nrf: FOR b! = 2 TO 1 STEP -1\nPRINT b!\nNEXT\nFOR c! = 7 TO 7\nPRINT c!\nNEXT\nRETURN\n",
     [2.0, 1.0, 7.0, 0.5, 2.0, 1.0, 7.0, 1.0, 2.0, 1.0, 7.0, 1.5]),
    ("zs 2\nEND\nSUB zs (n%)\nFOR i% = 1 TO n%\nIF n% > 1 THEN zs n% - 1\nPRINT n% * 10 + i%\nNEXT\nEND SUB\n",
     [11, 21, 11, 22]),
]


def _ref_instr(start, s1, s2):
    # QuickBASIC manual: 0 if string1 is empty, if start > LEN(string1), or if string2 is not found; start if string2 is empty
    if s1 == '' or start > len(s1):
        return 0
    if s2 == '':
        return start
    return s1.find(s2, start - 1) + 1


def _string_grid():
    lines, exp = [], []
    strs1 = ['', 'a', 'abc', 'abcabc']
    strs2 = ['', 'a', 'c', 'bc', 'abcd']
    for i, s1 in enumerate(strs1):
        lines.append(f'zg{i}$ = "{s1}"')
    for j, s2 in enumerate(strs2):
        lines.append(f'zh{j}$ = "{s2}"')
    for i, s1 in enumerate(strs1):
        for j, s2 in enumerate(strs2):
            lines.append(f'PRINT INSTR(zg{i}$, zh{j}$)')
            exp.append(_ref_instr(1, s1, s2))
            for st in (1, 2, 3, 4, 7):
                lines.append(f'PRINT INSTR({st}, zg{i}$, zh{j}$)')
                exp.append(_ref_instr(st, s1, s2))
        for n in (0, 1, 2, 3, 4, 7):
            lines.append(f'PRINT LEFT$(zg{i}$, {n}) + "|" + RIGHT$(zg{i}$, {n}) + "|" + MID$(zg{i}$, {n + 1}) + "|" + MID$(zg{i}$, {n + 1}, 2)')
            exp.append(s1[:n] + '|' + (s1[-n:] if n else '') + '|' + s1[n:] + '|' + s1[n:n + 2])
    return '\n'.join(lines) + '\n', exp


DIRECTED.append(_string_grid())


def run_directed(case):
    st = {'unit_programs': 0, 'programs': 0, 'runs_compared': 0, 'events_compared': 0, 'typed_print_items': 0,
          'error_outcomes_compared': 0, 'trap_lines_compared': 0, 'rejected': 0, 'ref_script_exhausted': 0, 'features': ['directed'],
          'error_kinds': [], 'directed_programs': 0}
    viol = []
    shapes = []
    for i, (text, exp) in enumerate(DIRECTED):
        for cfg in rt.CONFIGS6:
            needs_g = 'RESUME' in text
            if needs_g and not cfg[1]:
                continue
            c = rt.compile_src(text, cfg[0], cfg[1])
            cn = rt.cfg_name(cfg)
            if c.status != 'ok':
                viol.append(V(f'C01:valid-program-rejected:{c.status}:{c.sig or c.err_code}', f'{cn} directed program {i}: {c.msg}', text=text))
                continue
            r = rt.run_module(rt.load_module(c.modbytes), {}, max_ticks=20000)
            got = [e[1][0][2] for e in r.history if e[0] == 'print' and e[1]]
            st['programs'] += 1
            st['runs_compared'] += 1
            st['directed_programs'] += 1
            st['events_compared'] += len(got)
            st['typed_print_items'] += len(got)
            shapes.append(f'directed|{i}|{cn}')
            if got != exp or r.outcome != ['halt']:
                viol.append(V(f'C01:directed:{i}', f'{cn}: printed {got}, the source says {exp}; run ended {r.outcome}', text=text))
    return {'viol': viol, 'stats': st, 'shape': shapes, 'nontrivial': True, 'sample': {'source': DIRECTED[0][0], 'expected': DIRECTED[0][1]}}


def argform_programs():
    out = []
    tn = {'%': 'a', '&': 'b', '!': 'c', '#': 'd', '$': 'e'}
    for t in '%&!#$':
        for lk, (loc, decl) in ARG_LOCS.items():
            l = loc.format(t=t, n=tn[t])
            forms = ARG_STR_FORMS if t == '$' else ARG_FORMS
            for call in ('bare', 'call'):
                lines = ['TYPE zt', 'fa AS INTEGER', 'fb AS LONG', 'fc AS SINGLE', 'fd AS DOUBLE', 'fe AS STRING', 'END TYPE',
                         decl.format(t=t, n=tn[t]).rstrip('\n')]
                exp = []
                v = 5
                for form, aliases in forms:
                    arg = form.format(l=l, zero={'%': '0', '&': '0&', '!': '0!', '#': '0#'}.get(t, ''),
                                      one={'%': '1', '&': '1&', '!': '1!', '#': '1#'}.get(t, ''))
                    init = '"v"' if t == '$' else str(v)
                    lines.append(f'{l} = {init}')
                    lines.append(f'zbump {arg}' if call == 'bare' else f'CALL zbump({arg})')
                    lines.append(f'PRINT {l}')
                    if t == '$':
                        exp.append('v+' if aliases else 'v')
                    else:
                        exp.append(v + 1 if aliases else v)
                lines = [x for x in lines if x]
                lines += ['END', f'SUB zbump (p{t})', ('p$ = p$ + "+"' if t == '$' else f'p{t} = p{t} + 1'), 'END SUB']
                out.append(('\n'.join(lines) + '\n', exp, f'{t}|{lk}|{call}'))
    return out


def run_argforms(case):
    st = {'unit_programs': 0, 'programs': 0, 'runs_compared': 0, 'events_compared': 0, 'typed_print_items': 0,
          'error_outcomes_compared': 0, 'trap_lines_compared': 0, 'rejected': 0, 'ref_script_exhausted': 0, 'features': ['argforms'],
          'error_kinds': [], 'argument_forms_checked': 0}
    viol = []
    shapes = []
    for text, exp, key in argform_programs()[case['lo']:case['hi']]:
        for cfg in rt.CONFIGS6:
            c = rt.compile_src(text, cfg[0], cfg[1])
            cn = rt.cfg_name(cfg)
            if c.status != 'ok':
                viol.append(V(f'C01:valid-program-rejected:{c.status}:{c.sig or c.err_code}', f'{cn} argument forms {key}: {c.msg}', text=text))
                st['rejected'] += 1
                break
            r = rt.run_module(rt.load_module(c.modbytes), {}, max_ticks=20000)
            st['programs'] += 1
            st['runs_compared'] += 1
            got = [e[1][0][2] for e in r.history if e[0] == 'print' and e[1]]
            st['events_compared'] += len(got)
            st['typed_print_items'] += len(got)
            st['argument_forms_checked'] += len(exp)
            shapes.append(f'argforms|{key}|{cn}')
            if got != exp or r.outcome != ['halt']:
                bad = next((i for i, (a, b) in enumerate(zip(got, exp)) if a != b), len(got))
                viol.append(V(f"C01:argument-aliasing:{key.split('|')[1]}:{'O0' if cfg[0] == 0 else 'opt'}",
                              f'{cn} {key}: values after the calls {got}, expected {exp} (first difference at call {bad}); '
                              f'run ended {r.outcome}', text=text))
    return {'viol': viol, 'stats': st, 'shape': shapes, 'nontrivial': True,
            'sample': {'source': argform_programs()[case['lo']][0][:400], 'expected': argform_programs()[case['lo']][1]}}


def gen_cases(tier, seed):
    n = 130 if tier == 'quick' else 2500
    cs = []
    cs.append({'directed': True, 'seed': seed, 'k': 0})
    na = len(argform_programs())
    for lo in range(0, na, 6):
        cs.append({'argforms': True, 'lo': lo, 'hi': min(na, lo + 6), 'seed': seed, 'k': lo})
    step = 12 if tier == 'quick' else 4
    for lo in range(0, len(KW_PREFIXES), step):
        cs.append({'kwident': True, 'lo': lo, 'hi': min(len(KW_PREFIXES), lo + step), 'k': lo})
    for i in range(n_prec_programs()):
        cs.append({'prec': i, 'seed': seed, 'k': i, 'nscripts': 1})
    nu = 120 if tier == 'quick' else 3000
    for i in range(nu):
        cs.append({'unit': True, 'seed': seed * 100003 + 500000 + i, 'k': i, 'nscripts': 1})
    for i in range(n):
        big = (i % 3 == 0)
        cs.append({'seed': seed * 100003 + i, 'k': i,
                   'opts': {'max_stmts': 7 if tier == 'quick' else 12, 'max_depth': 2 if i % 2 else 3,
                            'big_values': big, 'expr_depth': 2 + (i % 2)},
                   'nscripts': 1 if tier == 'quick' else 2})
    return cs


def describe_diff(a, b):
    n = min(len(a), len(b))
    for i in range(n):
        if a[i] != b[i]:
            return i, a[i], b[i]
    if len(a) != len(b):
        return n, (a[n] if len(a) > n else None), (b[n] if len(b) > n else None)
    return None


def classify(exp_ev, got_ev):
    """Mechanism tag for a history mismatch."""
    if exp_ev is None:
        return 'extra-event:' + str(got_ev[0])
    if got_ev is None:
        return 'missing-event:' + str(exp_ev[0])
    if exp_ev[0] != got_ev[0]:
        return f'event-kind:{exp_ev[0]}->{got_ev[0]}'
    if exp_ev[0] == 'print':
        a, b = exp_ev[1], got_ev[1]
        if len(a) != len(b):
            return 'print-item-count'
        for x, y in zip(a, b):
            if x != y:
                if isinstance(x, list) and isinstance(y, list):
                    if x[1] != y[1]:
                        return f'print-type:{x[1]}->{y[1]}'
                    return f'print-value:{x[1]}'
                return 'print-separator'
    if exp_ev[0] == 'dev':
        return f'device-call:{exp_ev[1]}_{exp_ev[2]}'
    return 'event-args:' + str(exp_ev[0])


def run_case(case):
    st = {'unit_programs': 1 if case.get('unit') else 0, 'programs': 0, 'runs_compared': 0, 'events_compared': 0, 'typed_print_items': 0, 'error_outcomes_compared': 0,
          'trap_lines_compared': 0, 'rejected': 0, 'ref_script_exhausted': 0, 'features': [], 'error_kinds': []}
    viol = []
    if case.get('argforms'):
        return run_argforms(case)
    if case.get('kwident'):
        return run_kwident(case)
    if case.get('directed'):
        return run_directed(case)
    if case.get('prec') is not None:
        prog = prec_program(case['prec'])
        cfgs = [rt.CONFIGS6[case['prec'] % 6], rt.CONFIGS6[(case['prec'] + 3) % 6]]
        st['precedence_programs'] = 1
    elif case.get('unit'):
        import random as _random
        prog = unit_program(_random.Random(case['seed']), case['k'])
        cfgs = [rt.CONFIGS6[case['k'] % 6], rt.CONFIGS6[(case['k'] + 3) % 6]]
    else:
        prog = progs.gen_program(case['seed'], **case['opts'])
        cfgs = rt.CONFIGS6
    text, rr = render.render(prog)
    if case.get('k', 0) % 2 and not case.get('unit') and case.get('prec') is None:
        # the locals of different routines share their names in the text (RefQB keeps the unique IR names)
        text, nre = render.reuse_names(text)
        if nre:
            prog['features'] = sorted(set(prog['features']) | {'names-reused-across-routines'})
    st['features'] = prog['features']
    shape = shape_of(text)
    nontrivial = False
    sample = None
    compiled = {}
    for cfg in cfgs:
        c = rt.compile_src(text, cfg[0], cfg[1])
        compiled[cfg] = c
    bad = [(cfg, c) for cfg, c in compiled.items() if c.status != 'ok']
    if bad:
        st['rejected'] = 1
        cfg, c = bad[0]
        viol.append(V(f'C01:valid-program-rejected:{c.status}:{c.sig or c.err_code}',
                      f'{rt.cfg_name(cfg)}: generated well-typed program not accepted: {c.brief()} {c.msg} '
                      f'(line {rt.line_of(text, c.loc)})', text=text))
        return {'viol': viol, 'stats': st, 'shape': shape, 'nontrivial': False}
    st['programs'] = 1
    for si in range(case['nscripts']):
        script = casesmod.gen_script(case['seed'] + 17 * si)
        ip = interp.Interp(prog, script)
        try:
            h_ref, oc_ref, trace = ip.run()
        except RecursionError:
            st['ref_script_exhausted'] += 1
            continue
        if oc_ref[0] == 'script_exhausted':
            st['ref_script_exhausted'] += 1
            continue
        exp_h = norm_hist(h_ref)
        if oc_ref[0] == 'error':
            if oc_ref[1] not in ERRCLASS:
                continue
            exp_oc = ['trap', ERRCLASS[oc_ref[1]]]
            st['error_kinds'] = sorted(set(st['error_kinds']) | {oc_ref[1]})
        else:
            exp_oc = ['halt']
        # line of the failing statement
        exp_line = None
        es = ip.err_stmt
        if es is not None:
            if isinstance(es, tuple):
                exp_line = rr.stmt_line.get((es[0], id(es[1])) + tuple(es[2:]))
            else:
                exp_line = rr.stmt_line.get(id(es))
        for cfg in cfgs:
            mod = rt.load_module(compiled[cfg].modbytes)
            run = rt.run_module(mod, script, max_ticks=400000)
            if run.outcome[0] == 'tick_budget':
                continue
            st['runs_compared'] += 1
            got_h = norm_hist(run.history)
            st['events_compared'] += len(exp_h)
            st['typed_print_items'] += sum(1 for e in exp_h if e[0] == 'print' for it in e[1] if isinstance(it, list))
            cn = rt.cfg_name(cfg)
            d = describe_diff(exp_h, got_h)
            if d is not None:
                i, ex, got = d
                viol.append(V(f'C01:history:{classify(ex, got)}', f'{cn} script {si}: event {i}: reference {str(ex)[:160]} vs '
                              f'compiled {str(got)[:160]}; outcomes ref {exp_oc} / run {run.outcome} (line {run.trap_line})',
                              text=text, script=script, cfg=cfg))
                break
            if len(got_h) > 0:
                nontrivial = True
            oc = run.outcome
            if oc != exp_oc:
                viol.append(V(f'C01:outcome:{exp_oc[-1]}->{oc[-1]}', f'{cn} script {si}: reference outcome {exp_oc} '
                              f'(statement line {exp_line}), compiled run {oc} (line {run.trap_line}) {run.stdout[-120:]!r}',
                              text=text, script=script, cfg=cfg))
                break
            if exp_oc[0] == 'trap':
                st['error_outcomes_compared'] += 1
                if cfg[1] and exp_line is not None:
                    st['trap_lines_compared'] += 1
                    if run.trap_line != exp_line:
                        viol.append(V('C01:error-raised-by-another-statement', f'{cn} script {si}: {exp_oc[1]} is raised by the '
                                      f'statement on line {exp_line}, the run reports line {run.trap_line}', text=text,
                                      script=script, cfg=cfg))
                        break
        if sample is None and nontrivial:
            sample = {'source': text[:500], 'script_inputs': script['input'][:4], 'reference_outcome': exp_oc,
                      'events': len(exp_h)}
    return {'viol': viol, 'stats': st, 'shape': shape, 'nontrivial': nontrivial, 'sample': sample}
