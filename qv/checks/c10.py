"""C10 - ON ERROR, RESUME and RESUME NEXT follow statement-level semantics (fault enumeration)."""
import random

from .. import mon, rt
from .common import V

PROP = 'C10'
LEVEL = 'fault_enumeration'
RULE = ('programs with planted failing statements: statement kind {assignment, PRINT, CALL argument, array store, string '
        'assignment, READ, block IF / FOR / SELECT headers (RESUME only)} x error kind {division by zero, overflow, subscript, '
        'illegal function call, out of data} x depth of the failing sub-expression 0-3 (with partial results pending) x place '
        '{module level, inside a GOSUB routine, inside SUB, inside FUNCTION called from an expression} x handler form {RESUME '
        'after fixing the cause, RESUME NEXT, ON ERROR RESUME NEXT, ON ERROR GOTO 0 afterwards} x 1-3 failing statements in '
        'sequence x O0..O2 with -g; oracle = statement-level model of the program family (tag trace), ERR functional and '
        'injective on error kinds, operand-stack depth monitor at statement boundaries, continuation (GOSUB/RETURN, CALL, '
        'second error); non-trivial = >=1 planted failure executed; distinct = program plan')
ASSUMPTIONS = ['for errors inside procedures only "handler entered with the right ERR" is demanded, as the property states',
               'RESUME NEXT after an error in a block header (IF/FOR/SELECT) is not generated (where the next statement is, is '
               'dialect-dependent)']
REQUIRED_COUNTERS = ['programs_run', 'planted_failures', 'handler_entries_expected', 'resumes_expected', 'depth_checks']

KINDS = {
    'div0': {'n': '10 \\ zd%', 'fix': 'zd% = 1', 'init': 'zd% = 0', 'fixed_val': 10},
    'div0f': {'n': '5 / zdf', 'fix': 'zdf = 1', 'init': 'zdf = 0', 'fixed_val': 5},
    'ovf': {'n': '32700 + zo%', 'fix': 'zo% = 0', 'init': 'zo% = 100', 'fixed_val': 32700},
    'sub': {'n': 'zarr(zi%)', 'fix': 'zi% = 1', 'init': 'zi% = 9', 'fixed_val': 0},
    'ill': {'n': 'ASC(zes$)', 'fix': 'zes$ = "A"', 'init': 'zes$ = ""', 'fixed_val': 65},
}
CLASS = {'div0': 'DIVISION_BY_ZERO', 'div0f': 'DIVISION_BY_ZERO', 'ovf': 'INVALID_CELL_VALUE', 'sub': 'INDEX_OUT_OF_RANGE',
         'ill': 'INVALID_OPERAND_VALUE', 'data': 'DEVICE_ERROR:OP_FAILED'}
ERRKIND = {'div0': 'div0', 'div0f': 'div0', 'ovf': 'overflow', 'sub': 'subscript', 'ill': 'illegal-call', 'data': 'out-of-data'}


LIKE_ASSIGN = ('assign', 'store', 'strassign', 'ifl1', 'iflv', 'iflc', 'ifle', 'iflev')


def wrap(e, depth, r, safe=False):
    forms = ['(3 + {e})', '(2 * ({e}))', 'ABS({e})', '(zone% + ({e}))', '(({e}) - zone%)', 'zid%(({e}))',
             # a FUNCTION runs (with a partial result pending) before the failing operation
             '(zid%(3) + {e})', '(zone% + zid%(2) * ({e}))']
    if safe:
        # wrappers that cannot overflow again once the cause is fixed
        forms = ['ABS({e})', '(({e}) - zone%)', 'zid%(({e}))', '(0 + ({e}))', '(zid%(0) + {e})']
    for _ in range(depth):
        e = r.choice(forms).format(e=e)
    return e


def plan(r):
    """A plan = list of steps; each step is a dict describing a statement."""
    place = r.choice(['main', 'main', 'main', 'gosub', 'sub', 'function'])
    mode = r.choice(['goto-resume', 'goto-resume-next', 'goto-resume-next', 'resume-next-mode', 'goto-then-goto0'])
    if place in ('sub', 'function'):
        mode = 'goto-end'
    nfail = r.choice([1, 1, 2, 3])
    steps = []
    tag = [41000]

    def nt():
        tag[0] += 1
        return tag[0]
    kinds = list(KINDS) + ['data']
    used_once = set()
    for i in range(nfail):
        steps.append({'k': 'ok', 'tag': nt()})
        kind = r.choice(kinds)
        if kind == 'data' and mode == 'goto-resume':
            kind = 'div0'
        if kind in used_once:
            kind = r.choice([k for k in KINDS if k not in used_once] or ['div0'])
        if mode == 'goto-resume':
            used_once.add(kind)          # the handler fixes the cause once; a second failure needs another cause
        form = r.choice(['assign', 'print', 'call', 'store', 'strassign', 'ifl1', 'iflv', 'iflc', 'ifle', 'iflev'] +
                        (['if', 'for', 'select', 'elseif'] if mode == 'goto-resume' else []))
        if kind == 'data':
            form = 'read'
        steps.append({'k': 'fail', 'kind': kind, 'form': form, 'tag': nt(), 'depth': r.randint(0, 3)})
        if r.random() < 0.5:
            steps.append({'k': r.choice(['gosub', 'callsub']), 'tag': nt()})
    steps.append({'k': 'ok', 'tag': nt()})
    if mode == 'goto-then-goto0':
        steps.append({'k': 'goto0'})
        steps.append({'k': 'fail', 'kind': r.choice(['div0', 'ovf', 'sub']), 'form': 'assign', 'tag': nt(), 'depth': 1, 'fatal': True})
        steps.append({'k': 'ok', 'tag': nt()})
    return {'place': place, 'mode': mode, 'steps': steps}


def stmt_text(s, r):
    if s['k'] == 'ok':
        return f"PRINT {s['tag']}&"
    if s['k'] == 'gosub':
        return f"zgt& = {s['tag']}&: GOSUB zgs"
    if s['k'] == 'callsub':
        return f"zshow {s['tag']}&"
    if s['k'] == 'goto0':
        return 'ON ERROR GOTO 0'
    kind, form, t = s['kind'], s['form'], s['tag']
    if kind == 'data':
        return f'zq = ztz% * {t}&: READ zdat'
    e = wrap(KINDS[kind]['n'], s['depth'], r, safe=(kind == 'ovf'))
    if form == 'assign':
        return f'zq = 7 + {e}: PRINT {t}&; zq'
    # the failing assignment as the first statement of the THEN / ELSE part of a single-line IF (constant, CONST and variable
    # conditions: constant ones are folded away at -O1/-O2), followed by another statement on the same line
    if form == 'ifl1':
        return f'IF 1 THEN zq = 7 + {e}: PRINT {t}&; zq'
    if form == 'iflv':
        return f'IF zone% THEN zq = 7 + {e}: PRINT {t}&; zq'
    if form == 'iflc':
        return f'IF zflagc THEN zq = 7 + {e}: PRINT {t}&; zq'
    if form == 'ifle':
        return f'IF 0 THEN PRINT 44003& ELSE zq = 7 + {e}: PRINT {t}&; zq'
    if form == 'iflev':
        return f'IF zone% = 2 THEN PRINT 44003& ELSE zq = 7 + {e}: PRINT {t}&; zq'
    if form == 'print':
        return f'PRINT {t}&; {e}'
    if form == 'call':
        return f'zshow2 {t}&, (0 + {e})'
    if form == 'store':
        return f'zarr(2) = 4 + {e}: PRINT {t}&; zarr(2)'      # (zarr(1) is what the repaired subscript cause reads)
    if form == 'strassign':
        return f'zs$ = "x" + STR$({e}): PRINT {t}&; zs$'
    if form == 'if':
        return f'IF ({e}) * 0 = 0 THEN\nPRINT {t}&\nEND IF'      # true whenever the expression evaluates at all
    if form == 'elseif':
        return f'IF zone% = 0 THEN\nPRINT 44001&\nELSEIF ({e}) * 0 = 0 THEN\nPRINT {t}&\nEND IF'
    if form == 'for':
        return f'FOR zfi% = {e} TO 0\nNEXT\nPRINT {t}&'
    if form == 'select':
        return f'SELECT CASE {e}\nCASE -12345\nCASE ELSE\nPRINT {t}&\nEND SELECT'
    raise ValueError(form)


def build(pl, r):
    """-> (text, expected trace of ('tag', t) / ('handler', kind) events, expected outcome, counters)"""
    steps = pl['steps']
    mode, place = pl['mode'], pl['place']
    body = []
    exp = []
    cnt = {'fail': 0, 'handler': 0, 'resume': 0}
    outcome = ['halt']
    inits = sorted({KINDS[s['kind']]['init'] for s in steps if s['k'] == 'fail' and s['kind'] in KINDS})
    dead = False
    fixed_all = False
    for s in steps:
        txt = stmt_text(s, r)
        body.append(txt)
        if dead:
            continue
        if s['k'] == 'ok' or s['k'] in ('gosub', 'callsub'):
            exp.append(('tag', s['tag']))
        elif s['k'] == 'goto0':
            mode = 'none'
        else:
            cnt['fail'] += 1
            ek = ERRKIND[s['kind']]
            if mode == 'none' or s.get('fatal'):
                outcome = ['trap', CLASS[s['kind']]]
                dead = True
            elif mode == 'resume-next-mode':
                # statement skipped entirely; statements after ':' on the same line are separate statements
                cnt['resume'] += 1
                if s['kind'] == 'data':
                    pass
                elif s['form'] in LIKE_ASSIGN:
                    exp.append(('tag', s['tag']))     # the PRINT after ':' still runs (with the old value)
            elif mode == 'goto-end':
                exp.append(('handler', ek))
                cnt['handler'] += 1
                dead = True
            elif mode in ('goto-resume-next', 'goto-then-goto0'):
                exp.append(('handler', ek))
                cnt['handler'] += 1
                cnt['resume'] += 1
                if s['kind'] != 'data' and s['form'] in LIKE_ASSIGN:
                    exp.append(('tag', s['tag']))
            elif mode == 'goto-resume':
                if not fixed_all:
                    exp.append(('handler', ek))
                    cnt['handler'] += 1
                    cnt['resume'] += 1
                    fixed_all = True                  # the handler repairs every planted cause
                else:
                    cnt['fail'] -= 1
                exp.append(('tag', s['tag']))         # (re-)executed from its start after the fix
    fixes = ': '.join(sorted({KINDS[k]['fix'] for k in KINDS}))
    # the handler is module-level code: it sees the main program's variables (zmainv&, zhits%) also when the error happened
    # inside a procedure, and the causes it repairs are SHARED there
    lines = (['DIM SHARED zd%, zdf, zo%, zi%, zes$'] if place in ('sub', 'function') else []) + ['CONST zflagc = 1', 'DIM zarr(3)', 'zone% = 1']
    lines += ['zmainv& = 41777', ': '.join(f'zfill{i} = {i}' for i in range(1, 13))] + inits
    handler = []
    hhead = ['zh: zhits% = zhits% + 1', 'PRINT 42001&; ERR; zmainv&; zhits%']
    if r.random() < 0.5:
        # ordinary statements inside the handler: a SUB call, a FUNCTION call, GOSUB/RETURN
        hhead += r.sample(['zhnote', 'zhv% = zid%(4)', 'zgt& = 44002: GOSUB zgs'], r.randint(1, 3))
        pl['handler_calls'] = True
    arm_in_sub = False
    if pl['mode'] in ('goto-resume', 'goto-resume-next', 'goto-then-goto0', 'goto-end'):
        if r.random() < 0.25:
            # the handler is armed by a procedure (an "init" SUB with a local of its own): it still is module-level code and
            # runs with the main program's variables
            arm_in_sub = True
            pl['armed_in_sub'] = True
            lines.append('zarm 3')
        else:
            lines.append('ON ERROR GOTO zh')
        if pl['mode'] == 'goto-resume':
            handler = hhead + [fixes, 'RESUME']
        elif pl['mode'] == 'goto-end':
            handler = hhead + ['END']
        else:
            handler = hhead + ['RESUME NEXT']
    else:
        lines.append('ON ERROR RESUME NEXT')
    procs = ['SUB zhnote', 'zhn% = zhn% + 1', 'END SUB', 'SUB zshow (t&)', 'PRINT t&', 'END SUB', 'SUB zshow2 (t&, v)', 'PRINT t&; v', 'END SUB',
             'FUNCTION zid% (x)', 'zid% = x', 'END FUNCTION']
    if arm_in_sub:
        procs += ['SUB zarm (zk%)', 'zarmlocal$ = "arm"', 'ON ERROR GOTO zh', 'zarml2& = zk% + 1', 'END SUB']
    gs = ['zgs: PRINT zgt&', 'RETURN']
    if place == 'main':
        lines += body + ['END'] + gs + handler
    elif place == 'gosub':
        lines += ['GOSUB zbody', 'PRINT 43001&', 'END', 'zbody:'] + body + ['RETURN'] + gs + handler
        if not dead:
            exp.append(('tag', 43001))
    elif place == 'sub':
        if r.random() < 0.5:
            # two calls deep: main -> zvia (locals of its own) -> zouter; the module-level handler still works on main's variables
            pl['depth2'] = True
            lines += ['zvia 7', 'PRINT 43001&', 'END'] + gs + handler
            procs += ['SUB zvia (zvk%)', 'zvl1& = 123456', 'zvl2$ = "via"', 'zouter', 'zvl3% = zvk% + 1', 'END SUB']
        else:
            lines += ['zouter', 'PRINT 43001&', 'END'] + gs + handler
        procs += ['SUB zouter', 'DIM zarr(3)', 'zone% = 1'] + [b for b in body if 'GOSUB' not in b] + ['END SUB']
        exp = [e for e, s_ in zip(exp, exp)]
    else:
        lines += ['zr = zouterf(1)', 'PRINT 43001&', 'END'] + gs + handler
        procs += ['FUNCTION zouterf (q)', 'DIM zarr(3)', 'zone% = 1'] + [b for b in body if 'GOSUB' not in b] + ['zouterf = 1', 'END FUNCTION']
    text = '\n'.join(lines + procs) + '\n'
    return text, exp, outcome, cnt


def build_switch(r):
    """Programs that switch between ON ERROR GOTO and ON ERROR RESUME NEXT while errors happen alternately at module level
    and inside procedures.  -> (text, expected list of printed value tuples)"""
    lines = ['DIM SHARED zd%', 'zmainv& = 41777', ': '.join(f'zfill{i} = {i}' for i in range(1, 9))]
    procs = []
    exp = []
    mode = None
    tag = [41000]
    k = [0]

    def T():
        tag[0] += 1
        return tag[0]
    seq = [r.choice('GN')] + [r.choice('MSFGNMSFR') for _ in range(r.randint(4, 9))]
    data = []
    for b in seq:
        if b == 'G':
            lines.append('ON ERROR GOTO zh')
            mode = 'goto'
        elif b == 'N':
            lines.append('ON ERROR RESUME NEXT')
            mode = 'next'
        elif b == 'M':
            t = T()
            lines += ['zq% = 77', 'zq% = 7 + 10 \\ zd%', f'PRINT {t}&; zmainv&; zq%']
            if mode == 'goto':
                exp.append(('H', 41777))
            exp.append((t, 41777, 77))
        elif b == 'R':
            # a READ that fails (text into a numeric variable) must not consume its item
            t = T()
            data.append(f'txt{t}')
            lines += ['zn% = 0', 'READ zn%', 'READ zs$', f'PRINT {t}&; zs$; zn%']
            if mode == 'goto':
                exp.append(('H', 41777))
            exp.append((t, f'txt{t}', 0))
        elif b == 'S':
            k[0] += 1
            t1, t2 = T(), T()
            loc = 50000 + k[0]
            lines += [f'zsub{k[0]}', f'PRINT {t2}&; zmainv&']
            procs += [f'SUB zsub{k[0]}', f'zl{k[0]}& = {loc}', 'zx% = 5', 'zx% = 5 + 10 \\ zd%', f'PRINT {t1}&; zl{k[0]}&; zx%', 'END SUB']
            if mode == 'goto':
                exp.append(('H', 41777))
            exp.append((t1, loc, 5))
            exp.append((t2, 41777))
        else:
            k[0] += 1
            t1, t2 = T(), T()
            loc = 60000 + k[0]
            lines += [f'zr% = 3 + zfn{k[0]}%(2)', f'PRINT {t2}&; zmainv&; zr%']
            procs += [f'FUNCTION zfn{k[0]}% (a%)', f'zl{k[0]}& = {loc}', 'zx% = 5', 'zx% = a% + 10 \\ zd%', f'PRINT {t1}&; zl{k[0]}&; zx%',
                      f'zfn{k[0]}% = 9', 'END FUNCTION']
            if mode == 'goto':
                exp.append(('H', 41777))
            exp.append((t1, loc, 5))
            exp.append((t2, 41777, 12))
    lines += ['END', 'zh: PRINT 42001&; zmainv&; ERR', 'RESUME NEXT']
    if data:
        lines.append('DATA ' + ', '.join(data))
    return '\n'.join(lines + procs) + '\n', exp, ''.join(seq)


def run_switch(case):
    r = random.Random(case['seed'])
    st = {'programs_run': 0, 'planted_failures': 0, 'handler_entries_expected': 0, 'resumes_expected': 0, 'depth_checks': 0,
          'modes': ['switching'], 'places': ['mixed'], 'mode_switch_programs': 0}
    viol = []
    shapes = []
    sample = None
    for j in range(case['n']):
        text, exp, key = build_switch(r)
        O = (case['seed'] + j) % 3
        c = rt.compile_src(text, O, True)
        if c.status != 'ok':
            viol.append(V(f'C10:program-rejected:{c.sig or c.err_code}', f'{c.brief()} {c.msg}', text=text))
            continue
        holder = {}

        def factory(cpu):
            holder['d'] = mon.StmtBoundaryDepth()
            return [holder['d']]
        run = rt.run_module(rt.load_module(c.modbytes), {}, max_ticks=30000, cpu_class=mon.with_monitors(factory))
        st['programs_run'] += 1
        st['mode_switch_programs'] += 1
        st['planted_failures'] += sum(1 for e in exp if e[0] != 'H') // 1
        st['handler_entries_expected'] += sum(1 for e in exp if e[0] == 'H')
        st['resumes_expected'] += sum(1 for ch in key if ch in 'MSFR')
        st['depth_checks'] += holder['d'].count
        shapes.append('switch|' + key)
        got = []
        for e in run.history:
            if e[0] != 'print' or not e[1]:
                continue
            vals = [x[2] for x in e[1] if isinstance(x, list) and x[0] == 'v']
            if vals and vals[0] == 42001:
                got.append(('H', vals[1] if len(vals) > 1 else None))
            else:
                got.append(tuple(vals))
        ctx = f'O{O}g [mode switches {key}]'
        if got != exp or run.outcome != ['halt']:
            idx = next((i for i, (a, b) in enumerate(zip(got, exp)) if a != b), min(len(got), len(exp)))
            viol.append(V('C10:mode-switch-trace', f'{ctx}: event {idx}: expected {exp[idx] if idx < len(exp) else None}, observed '
                          f'{got[idx] if idx < len(got) else None}; run ended {run.outcome} (line {run.trap_line}) {run.stdout[-100:]!r}',
                          text=text))
            continue
        for sig, msg in holder['d'].viol:
            viol.append(V('C10:partial-results-left-on-stack', f'{ctx}: {msg}', text=text))
        if sample is None:
            sample = {'program': text[:500], 'expected_trace': [list(e) for e in exp], 'mode': 'switching'}
    return {'viol': viol, 'stats': st, 'shape': shapes, 'nontrivial': bool(shapes), 'sample': sample}


# hand-computed programs for corners the planted-failure generator does not build
DIRECTED = [
    # ON ERROR GOTO 0 restores default reporting also in a program that has a line numbered 0
    ('ON ERROR GOTO zh\nx% = 1 \\ z%\nPRINT "a"\nON ERROR GOTO 0\nGOTO 10\n0 PRINT "line0"\n10 PRINT "b"\nDIM q(2)\nq(5) = 1\nPRINT "never"\nEND\n'
     'zh: PRINT "h"\nRESUME NEXT\n', ['h', 'a', 'b'], ['trap', 'INDEX_OUT_OF_RANGE']),
    ('0 PRINT "zero"\nON ERROR GOTO zh\nx% = 1 \\ z%\nON ERROR GOTO 0\nPRINT "c"\nx% = 1 \\ z%\nPRINT "never"\nEND\nzh: PRINT "h"\nRESUME NEXT\n',
     ['zero', 'h', 'c'], ['trap', 'DIVISION_BY_ZERO']),
    # RESUME NEXT continues with the statement after the failed one, also inside a single-line IF whose condition is constant
    ('CONST flag = 1\nON ERROR GOTO zh\nIF flag THEN x% = 1 \\ z%: PRINT "second": PRINT "third"\nPRINT "after"\nEND\nzh: PRINT "h"\nRESUME NEXT\n',
     ['h', 'second', 'third', 'after'], ['halt']),
    ('ON ERROR GOTO zh\nIF 1 THEN x% = 1 \\ z%: PRINT "second"\nPRINT "after"\nEND\nzh: PRINT "h"\nRESUME NEXT\n',
     ['h', 'second', 'after'], ['halt']),
    ('ON ERROR GOTO zh\nIF 0 THEN PRINT "no" ELSE y% = 1 \\ z%: PRINT "e2": PRINT "e3"\nPRINT "after"\nEND\nzh: PRINT "h"\nRESUME NEXT\n',
     ['h', 'e2', 'e3', 'after'], ['halt']),
    ('zv% = 5\nON ERROR GOTO zh\nIF zv% THEN x% = 1 \\ z%: PRINT "second"\nPRINT "after"\nEND\nzh: PRINT "h"\nRESUME NEXT\n',
     ['h', 'second', 'after'], ['halt']),
    ('ON ERROR RESUME NEXT\nIF 1 THEN x% = 1 \\ z%: PRINT "second"\nPRINT "after"\n', ['second', 'after'], ['halt']),
    # errors inside a GOSUB routine: the return address below the failed statement's operands survives the resume
    ('ON ERROR GOTO zh\nGOSUB work\nPRINT "back"\nGOSUB work\nPRINT "back2"\nEND\nwork: PRINT "w1"\nx% = 7 + 1 \\ z%\nPRINT "w2"\nRETURN\n'
     'zh: PRINT "h"\nRESUME NEXT\n', ['w1', 'h', 'w2', 'back', 'w1', 'h', 'w2', 'back2'], ['halt']),
    ('ON ERROR GOTO zh\nGOSUB outer\nPRINT "back"\nEND\nouter: GOSUB inner\nPRINT "o2"\nRETURN\ninner: x% = 3 * (2 + 1 \\ z%)\nPRINT "i2"\nRETURN\n'
     'zh: PRINT "h"\nRESUME NEXT\n', ['h', 'i2', 'o2', 'back'], ['halt']),
    ('ON ERROR RESUME NEXT\nGOSUB work\nPRINT "back"\nEND\nwork: x% = 7 + 1 \\ z%\nPRINT "w2"\nRETURN\n', ['w2', 'back'], ['halt']),
    # RESUME re-executes the whole statement after the handler repaired the cause
    ('ON ERROR GOTO zh\nGOSUB work\nPRINT "back"\nEND\nwork: PRINT 10 \\ z%\nRETURN\nzh: z% = 2\nRESUME\n', [5, 'back'], ['halt']),
    # an error in the condition of an ELSEIF: the statement that follows it is the first statement of its branch
    ('ON ERROR GOTO zh\nx% = 3\nGOSUB chk\nPRINT "after gosub"\nEND\nchk: IF x% = 1 THEN\nPRINT "one"\nELSEIF 10 \\ z% = 5 THEN\nPRINT "two"\n'
     'ELSEIF x% = 3 THEN\nPRINT "three"\nELSE\nPRINT "else"\nEND IF\nPRINT "chk end"\nRETURN\nzh: PRINT "h"\nRESUME NEXT\n',
     ['h', 'two', 'chk end', 'after gosub'], ['halt']),
    ('ON ERROR RESUME NEXT\nx% = 3\nGOSUB chk\nPRINT "after gosub"\nEND\nchk: IF x% = 1 THEN\nPRINT "one"\nELSEIF 10 \\ z% = 5 THEN\nPRINT "two"\n'
     'ELSE\nPRINT "else"\nEND IF\nPRINT "chk end"\nRETURN\n', ['two', 'chk end', 'after gosub'], ['halt']),
    ('ON ERROR GOTO zh\nDIM a(3)\nFOR k% = 2 TO 9 STEP 7\nIF k% = 1 THEN\nPRINT "one"\nELSEIF a(k%) = 0 THEN\nPRINT "branch"; k%\nEND IF\nNEXT\nPRINT "end"\nEND\n'
     'zh: PRINT "h"\nRESUME NEXT\n', ['branch', 'h', 'branch', 'end'], ['halt']),
    # the statement at the very start of the text fails
    ('x% = 1 \\ z%\nPRINT "after"\n', [], ['trap', 'DIVISION_BY_ZERO']),
    ('ON ERROR GOTO zh: x% = 1 \\ z%: PRINT "same line"\nPRINT "after"\nEND\nzh: PRINT "h"\nRESUME NEXT\n', ['h', 'same line', 'after'], ['halt']),
]


def run_directed(case):
    st = {'programs_run': 0, 'planted_failures': 0, 'handler_entries_expected': 0, 'resumes_expected': 0, 'depth_checks': 0,
          'modes': ['directed'], 'places': [], 'directed_programs': 0}
    viol = []
    shapes = []
    for i, (text, exp, exp_oc) in enumerate(DIRECTED):
        for O in (0, 1, 2):
            c = rt.compile_src(text, O, True)
            if c.status != 'ok':
                viol.append(V(f'C10:program-rejected:{c.sig or c.err_code}', f'directed {i} O{O}g: {c.brief()} {c.msg}', text=text))
                continue
            r = rt.run_module(rt.load_module(c.modbytes), {}, max_ticks=20000)
            got = [e[1][0][2] for e in r.history if e[0] == 'print' and e[1]]
            st['programs_run'] += 1
            st['directed_programs'] += 1
            shapes.append(f'directed|{i}|{O}')
            oc = list(r.outcome[:2]) if r.outcome[0] == 'trap' else list(r.outcome[:1])
            if got != exp or oc != exp_oc:
                viol.append(V(f'C10:directed:{i}', f'O{O}g: printed {got} and ended {r.outcome}; statement-level semantics give {exp} '
                              f'and {exp_oc}', text=text))
    return {'viol': viol, 'stats': st, 'shape': shapes, 'nontrivial': True, 'sample': {'directed_program': DIRECTED[0][0]}}


def gen_cases(tier, seed):
    n = 800 if tier == 'quick' else 8000
    B = 20
    cs = [{'seed': seed * 100003 + i, 'n': B} for i in range(0, n, B)]
    ns = 160 if tier == 'quick' else 3000
    cs += [{'kind': 'switch', 'seed': seed * 70001 + i, 'n': B} for i in range(0, ns, B)]
    cs.append({'kind': 'directed', 'seed': seed})
    return cs


def run_case(case):
    if case.get('kind') == 'switch':
        return run_switch(case)
    if case.get('kind') == 'directed':
        return run_directed(case)
    r = random.Random(case['seed'])
    st = {'programs_run': 0, 'planted_failures': 0, 'handler_entries_expected': 0, 'resumes_expected': 0, 'depth_checks': 0,
          'modes': [], 'places': []}
    viol = []
    shapes = []
    err_of = {}
    sample = None
    for j in range(case['n']):
        pl = plan(r)
        # GOSUB statements cannot live inside SUB/FUNCTION bodies that use module-level labels
        if pl['place'] in ('sub', 'function'):
            pl['steps'] = [s for s in pl['steps'] if s['k'] != 'gosub']
        text, exp, outcome, cnt = build(pl, random.Random(case['seed'] + j))
        O = (case['seed'] + j) % 3
        c = rt.compile_src(text, O, True)
        key = f"{pl['place']}|{pl['mode']}|" + ','.join(f"{s['k']}:{s.get('kind', '')}:{s.get('form', '')}:{s.get('depth', '')}" for s in pl['steps'])
        if c.status != 'ok':
            viol.append(V(f'C10:program-rejected:{c.sig or c.err_code}', f'{c.brief()} {c.msg} (line {rt.line_of(text, c.loc)})',
                          text=text))
            continue
        mod = rt.load_module(c.modbytes)
        holder = {}

        def factory(cpu):
            holder['d'] = mon.StmtBoundaryDepth()
            return [holder['d']]
        run = rt.run_module(mod, {}, max_ticks=30000, cpu_class=mon.with_monitors(factory))
        st['programs_run'] += 1
        st['planted_failures'] += cnt['fail']
        st['handler_entries_expected'] += cnt['handler']
        st['resumes_expected'] += cnt['resume']
        st['depth_checks'] += holder['d'].count
        st['modes'] = sorted(set(st['modes']) | {pl['mode']})
        st['places'] = sorted(set(st['places']) | {pl['place']})
        shapes.append(key)
        cn = f'O{O}g'
        ctx = f"{cn} [{pl['place']}/{pl['mode']}]"
        # observed trace
        got = []
        frame_reported = False
        for e in run.history:
            if e[0] != 'print' or not e[1]:
                continue
            it = e[1][0]
            if not (isinstance(it, list) and it[0] == 'v' and it[1] == '&'):
                continue
            t = it[2]
            if t == 44002:
                st['handler_gosubs'] = st.get('handler_gosubs', 0) + 1      # printed by a GOSUB inside the handler
                continue
            if t == 42001:
                errv = e[1][2][2] if len(e[1]) > 2 and isinstance(e[1][2], list) else None
                got.append(('handler', errv))
                nh = sum(1 for g_ in got if g_[0] == 'handler')
                seen = [x[2] for x in e[1][4:7:2] if isinstance(x, list)]
                st['handler_frame_checks'] = st.get('handler_frame_checks', 0) + 1
                if seen != [41777, nh] and not frame_reported:
                    frame_reported = True
                    viol.append(V(f"C10:handler-does-not-see-module-variables:{pl['place']}", f"{cn} [{pl['place']}/{pl['mode']}]: "
                                  f'entry {nh} of the module-level handler printed zmainv&, zhits% = {seen}, the main program holds '
                                  f'[41777, {nh}]', text=text))
            else:
                got.append(('tag', t))
        # compare shape of traces
        ok = True
        fails = [s for s in pl['steps'] if s['k'] == 'fail']
        for idx in range(max(len(exp), len(got))):
            ex = exp[idx] if idx < len(exp) else None
            g_ = got[idx] if idx < len(got) else None
            if ex is None or g_ is None or ex[0] != g_[0] or (ex[0] != 'handler' and ex[1] != g_[1]):
                nfail_before = sum(1 for e in exp[:idx + 1] if e[0] == 'handler') or 1
                fk = fails[min(len(fails), nfail_before) - 1] if fails else {}
                what = ('handler-not-entered' if ex and ex[0] == 'handler' else
                        'handler-entered-unexpectedly' if g_ and g_[0] == 'handler' else
                        'statement-not-skipped' if ex and g_ and g_[0] in ('tag', 'tagval') and ex[0] in ('tag', 'tagval') and pl['mode'] != 'goto-resume' else
                        'trace')
                viol.append(V(f"C10:{what}:{pl['mode']}:{fk.get('kind')}", f'{ctx}: event {idx}: expected {ex}, observed {g_}; '
                              f'run ended {run.outcome} (line {run.trap_line}) {run.stdout[-120:]!r}', text=text))
                ok = False
                break
        if not ok:
            continue
        # ERR values: functional and injective on kinds
        hk = [e[1] for e in exp if e[0] == 'handler']
        hv = [g_[1] for g_ in got if g_[0] == 'handler']
        for k_, v_ in zip(hk, hv):
            if v_ is None:
                viol.append(V('C10:err-not-printed', f'{ctx}: handler printed no ERR', text=text))
                continue
            if k_ in err_of and err_of[k_] != v_:
                viol.append(V(f'C10:err-not-a-function-of-kind:{k_}', f'{ctx}: ERR for {k_} was {err_of[k_]}, now {v_}', text=text))
            for k2, v2 in err_of.items():
                if k2 != k_ and v2 == v_:
                    viol.append(V(f'C10:err-same-for-different-kinds:{min(k_, k2)}+{max(k_, k2)}', f'{ctx}: ERR {v_} for both {k_} and {k2}',
                                  text=text))
            err_of[k_] = v_
        if run.outcome != outcome:
            viol.append(V(f"C10:outcome:{pl['mode']}:{outcome[0]}->{run.outcome[0]}:{run.outcome[1] if len(run.outcome) > 1 else ''}",
                          f'{ctx}: expected {outcome}, run ended {run.outcome} (line {run.trap_line}) {run.stdout[-120:]!r}',
                          text=text))
            continue
        for sig, msg in holder['d'].viol:
            viol.append(V('C10:partial-results-left-on-stack', f'{ctx}: {msg}', text=text))
        if sample is None:
            sample = {'program': text[:500], 'expected_trace': [list(e) for e in exp], 'mode': pl['mode']}
    st['err_values'] = [f'{k}={v}' for k, v in sorted(err_of.items())]
    return {'viol': viol, 'stats': st, 'shape': shapes, 'nontrivial': bool(shapes), 'sample': sample}
