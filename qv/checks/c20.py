"""C20 - compilation and execution are deterministic.

Each case is a small batch of sources. The same batch is compiled and run
  * in fresh child processes under PYTHONHASHSEED in {0,1,2,random}, from another cwd, under three fake
    clocks (time/datetime patched before the repository is imported);
  * in this (reused) worker process after a history of other compilations, some of which fail at
    different stages, and twice in a row.
Sections 1-4, the listing, the device trace, outcome and tick count must be identical everywhere.
An audit hook records file/socket/process events on the compile/run path (reported as cause notes).
"""
import hashlib
import json
import os
import random
import subprocess
import sys
import tempfile

PROP = 'C20'
LEVEL = 'exploration'
RULE = ('batch of sources (generated, repository snippets, directed: dead code next to live code, many literals/labels/'
        'procedures, error-handler programs, language tour) x 2-6 configs x conditions {4 hash seeds, other cwd, 3 fake clocks, '
        'reused process after k<=12 earlier compilations incl. failing ones, twice in a row, the batch in reverse order in '
        'a fresh and in the reused process}; compared: sha256 of sections 1-4, '
        'listing, device trace, outcome, tick count; non-trivial = accepted source whose digests were compared '
        'under >=8 conditions; distinct = program shape hash')
ASSUMPTIONS = ['section 5 (gzip+pickle debug info) is excluded as the property states',
               'clock independence is tested with patched time/datetime modules, the sandbox clock cannot be set']
REQUIRED_COUNTERS = ['digests_compared', 'child_processes', 'history_compilations']
CASE_TIMEOUT = 1800
SHARD_TIMEOUT = {'quick': 1500, 'thorough': 7200}

VERIF = os.path.dirname(os.path.dirname(os.path.dirname(os.path.abspath(__file__))))

HISTORY_POOL = [
    "PRINT 1\n", "x = = 1\n", "PRINT \"a\" + 1\n", "GOTO nowhere\n", "DEFINT A-Z\nx = 1.5\nPRINT x\n",
    "DEFSTR S\ns = \"q\"\nPRINT s\n", "FOR i = 1 TO 3\n", "TYPE t\nx AS INTEGER\nEND TYPE\nDIM v AS t\nv.x = 1\n",
    "SUB f\nEND SUB\nSUB f\nEND SUB\n", "PRINT 2 ^ -1\n", "DEFDBL A-C, X-Z\ny = 1 / 3\nPRINT y\n",
    "10 PRINT 1\n20 GOTO 10\n", "a: b: c: PRINT 1\n", "CONST k = 1\nk = 2\n", "LOCATE 5\n", "IF \"a\" THEN PRINT 1\n",
    "DATA 1,2,3\nREAD a, b, c\nPRINT a; b; c\n", "PRINT 1.5 < 1.6\n", "DEFLNG A-Z\nPRINT 100000 * 3\n",
]

SPECIAL = [
    "DEFINT A-C\nDEFLNG D-F\nDEFSNG G-I\nDEFDBL J-L\nDEFSTR S\na = 1: d = 70000: g = 1.5: j = 1 / 3: s = \"x\"\nPRINT a; d; g; j; s\n",
    "l1: l2: l3: l4: l5: l6: l7: l8:\nGOTO l5\n" + ''.join(f"lab{i}: PRINT {i}\n" for i in range(30)) + "RESTORE lab7\n",
    ''.join(f"{10 * i} PRINT {i}\n" for i in range(1, 25)) + "GOTO 240\n",
    ''.join(f"SUB s{i}\nPRINT {i}\nEND SUB\n" for i in range(12)) + ''.join(f"s{i}\n" for i in range(12)),
    "DIM SHARED a, b, c, d, e, f\nTYPE t\nq AS LONG\nr AS STRING\nEND TYPE\nDIM SHARED v AS t\nDIM SHARED w(3) AS t\na = 1: f = 6\nPRINT a; f; v.q; w(1).r\n",
    ''.join(f"PRINT \"lit{i}\"\n" for i in range(40)),
    ''.join(f"DATA {i}, \"s{i}\"\n" for i in range(20)) + "READ a, b$\nPRINT a; b$\n",
    "x = RND\ny = TIMER\nz$ = INKEY$\nPRINT x; y; z$\nRANDOMIZE 5\nPRINT RND(1)\n",
    # code that the optimiser deletes (after END / GOTO / in a never-called place) next to code that stays
    "PRINT \"alpha\"\nPRINT \"beta\"\nPRINT \"gamma\"\nEND\nPRINT \"dead1\"\nPRINT \"dead2\"; \"beta\"\nzl: PRINT \"live\"; \"delta\"\n",
    "GOTO zl\nPRINT \"skipped\"; 1.5; 70000\nx$ = \"never\"\nzl: PRINT \"a\"; \"b\"; \"c\"; \"d\"\nEND\nPRINT \"tail\"\n",
    "zs\nEND\nPRINT \"dead\"\nSUB zs\nPRINT \"one\"; \"two\"\nEXIT SUB\nPRINT \"three\"\nEND SUB\nSUB znever\nPRINT \"four\"; \"one\"\nEND SUB\n",
    "CONST a$ = \"k1\", b$ = \"k2\"\nPRINT a$ + b$; \"k1\" + \"k3\"; \"x\" + \"y\" + \"z\"\nIF 0 THEN PRINT \"folded-away\"\nIF 1 THEN PRINT \"kept\" ELSE PRINT \"gone\"\n",
    "ON ERROR GOTO zh\nzw\nPRINT \"back\"\nEND\nzh: PRINT \"err\"; ERR\nRESUME NEXT\nSUB zw\nd% = 0\nr% = 100 + 10 \\ d%\nPRINT \"in sub\"; r%\nEND SUB\n",
    "ON ERROR RESUME NEXT\nzw\nPRINT \"back\"; ERR\nEND\nSUB zw\nd% = 0\nr% = 100 + 10 \\ d%\nPRINT \"in sub\"; r%\nEND SUB\n",
]


# families of programs that use the same names in different roles: whatever one compilation leaves behind in the process
# (registries, class attributes, caches keyed by a name) meets the same key again in the next one
FAMILIES = [
    # labels and line numbers: with and without DATA, before and after the last DATA statement, RESTORE targets
    ["zl: PRINT 1\n10 PRINT 2\nGOTO 20\n20 END\n",
     "zl: DATA 1, 2\n10 DATA 3\nREAD a, b, c\nPRINT a; b; c\nRESTORE 10\nREAD d\nPRINT d\n20 RESTORE zl\nREAD e\nPRINT e\n",
     "DATA 5, 6\nzl: PRINT 1\nON ERROR GOTO 20\nRESTORE zl\nREAD a\nPRINT a\nEND\n20 PRINT \"out of data\"\n",
     "10 PRINT 0\nDATA 7\n20 REM\nON ERROR GOTO zl\nRESTORE 20\nREAD a\nPRINT a\nEND\nzl: PRINT \"out of data\"\n",
     "READ x\nPRINT x\nRESTORE zl\nREAD y\nPRINT y\n10 DATA 8\nzl: 20 DATA 9\n",
     "GOSUB zl\nEND\nzl: RESTORE\nREAD q\nPRINT q\nRETURN\nDATA 4\n"],
    # one name as a variable of different types, a SUB, a FUNCTION, a CONST, a TYPE, an array, a label
    ["DIM x AS INTEGER\nx = 3.7\nPRINT x\nfoo\nSUB foo\nPRINT \"foo1\"\nEND SUB\n",
     "DIM x AS STRING\nx = \"s\"\nPRINT x\nfoo 2\nSUB foo (n)\nPRINT n\nEND SUB\n",
     "TYPE t\na AS LONG\nEND TYPE\nDIM x AS t\nx.a = 5\nPRINT x.a\nCONST foo = 3\nPRINT foo\n",
     "TYPE t\na AS STRING\nb AS INTEGER\nEND TYPE\nDIM x(2) AS t\nx(1).a = \"q\"\nPRINT x(1).a; x(2).b; foo\nFUNCTION foo\nfoo = 1\nEND FUNCTION\n",
     "DEFSTR X\nx = \"d\"\nPRINT x\nfoo: PRINT 1\n",
     "DIM SHARED x(3) AS DOUBLE\nx(2) = 1.5\nfoo\nSUB foo STATIC\nt = t + 1\nPRINT x(2); t\nEND SUB\n",
     "x = 1\nfoo\nfoo\nSUB foo STATIC\nFOR x = 1 TO 2\nNEXT\nDIM t(x)\nPRINT x; UBOUND(t)\nEND SUB\n"],
    # the same statements with and without the features that switch on per-process machinery (handlers, DATA, DEFtype)
    ["ON ERROR GOTO h\nx% = 1 \\ z%\nPRINT \"a\"\nEND\nh: RESUME NEXT\n", "x% = 1\nPRINT \"a\"\nEND\nh: PRINT \"h\"\n",
     "ON ERROR RESUME NEXT\nx% = 1 \\ z%\nPRINT \"a\"\n", "DEFINT A-Z\nx = 1\nPRINT \"a\"; x / 2\n", "x = 1\nPRINT \"a\"; x / 2\n"],
]


def digest(b):
    return hashlib.sha256(b if isinstance(b, bytes) else b.encode('utf-8', 'surrogatepass')).hexdigest()[:20]


def observe_batch(sources, configs, run=True, reverse=False):
    """-> {f'{i}|{cfg}': digest dict}; executed inside whatever process calls it.  `reverse` visits the (source, config)
    pairs in the opposite order, so that what ran *before* an item in the same process differs between conditions."""
    from qv import rt, diff
    out = {}
    items = list(enumerate(sources))
    configs = list(configs)
    if reverse:
        items.reverse()
        configs.reverse()
    for i, (text, script) in items:
        for cfg in configs:
            cfg = tuple(cfg)
            o = diff.observe(text, cfg, script, run=run, max_ticks=20000, listing=True)
            d = {'status': o['brief'][:2] if o['status'] != 'crash' else ['crash', o['sig']]}
            if o['status'] == 'ok':
                for s in (1, 2, 3, 4):
                    d[f's{s}'] = digest(o['sections'].get(s, b''))
                d['listing'] = digest(o['listing'])
                if 'hist' in o:
                    d['trace'] = digest(json.dumps(o['hist'], default=repr))
                    d['outcome'] = o['outcome']
                    d['ticks'] = o['ticks']
                    d['events'] = len(o['hist'])
            out[f'{i}|{cfg[0]}{"g" if cfg[1] else ""}'] = d
    return out


def child_main(path):
    with open(path) as f:
        job = json.load(f)
    clock = job.get('clock')
    if clock is not None:
        import time
        import datetime
        base = float(clock)
        cnt = [0]

        def fake():
            cnt[0] += 1
            return base + cnt[0] * 0.001
        time.time = fake
        time.monotonic = fake
        time.perf_counter = fake
        time.time_ns = lambda: int(fake() * 1e9)

        class FakeDT(datetime.datetime):
            @classmethod
            def now(cls, tz=None):
                return cls.fromtimestamp(base, tz)

            @classmethod
            def utcnow(cls):
                return cls.utcfromtimestamp(base)
        datetime.datetime = FakeDT
    events = []

    def hook(ev, args):
        if ev in ('open', 'socket.connect', 'socket.bind', 'subprocess.Popen', 'os.system', 'os.exec',
                  'os.spawn', 'os.posix_spawn', 'os.fork'):
            if ev == 'open':
                p = str(args[0])
                if '/repo' in p or p.endswith(('.py', '.pyc', '.so')) or 'site-packages' in p or 'lib/python' in p:
                    return
                events.append([ev, p])
            else:
                events.append([ev, str(args)[:80]])
    sys.path.insert(0, VERIF)
    import qv  # noqa: F401
    from qv import rt  # noqa: F401  import the repo before auditing
    if job.get('audit'):
        sys.addaudithook(hook)
    calls = {}
    if job.get('callmon') and hasattr(sys, 'monitoring'):
        # "nondeterminism sanitizer": calls made from /repo frames into clocks, random sources, uuid, environment
        import random
        import time
        import datetime as _dt
        import uuid
        watched = {time.time: 'time.time', time.monotonic: 'time.monotonic', time.perf_counter: 'time.perf_counter',
                   time.time_ns: 'time.time_ns', os.urandom: 'os.urandom', random.random: 'random.random',
                   random.randint: 'random.randint', random.choice: 'random.choice', random.shuffle: 'random.shuffle',
                   uuid.uuid4: 'uuid.uuid4', os.getpid: 'os.getpid', os.getcwd: 'os.getcwd', id: 'id', hash: 'hash'}
        repo = os.environ.get('QV_REPO', '/repo')
        mon_ = sys.monitoring
        TOOL = 3
        try:
            mon_.use_tool_id(TOOL, 'qv-c20')

            def on_call(code, offset, callable_, arg0):
                try:
                    name = watched.get(callable_)
                except TypeError:
                    name = None
                if name is None and getattr(callable_, '__self__', None) is not None:
                    owner = type(callable_.__self__).__name__
                    if owner == 'Random' or (owner == 'type' and getattr(callable_, '__name__', '') in ('now', 'utcnow', 'today')):
                        name = f'{owner}.{getattr(callable_, "__name__", "?")}'
                if name is not None and code.co_filename.startswith(repo):
                    key = f'{name} <- {os.path.relpath(code.co_filename, repo)}:{code.co_name}'
                    calls[key] = calls.get(key, 0) + 1
            mon_.register_callback(TOOL, mon_.events.CALL, on_call)
            mon_.set_events(TOOL, mon_.events.CALL)
        except Exception as e:  # noqa: BLE001
            calls['monitor-unavailable'] = str(e)
    res = observe_batch(job['sources'], job['configs'], reverse=bool(job.get('reverse')))
    if job.get('callmon') and hasattr(sys, 'monitoring'):
        try:
            sys.monitoring.set_events(3, 0)
        except Exception:
            pass
    print('RESULT' + json.dumps({'digests': res, 'audit': events[:20], 'calls': calls}))


def spawn(job, env_extra, cwd):
    with tempfile.NamedTemporaryFile('w', suffix='.json', delete=False) as f:
        json.dump(job, f)
        path = f.name
    env = dict(os.environ)
    env.update(env_extra)
    env['PYTHONPATH'] = VERIF
    try:
        p = subprocess.run([sys.executable, '-B', '-c',
                            'import sys; sys.path.insert(0, %r); from qv.checks.c20 import child_main; child_main(%r)' % (VERIF, path)],
                           env=env, cwd=cwd, capture_output=True, text=True, timeout=900)
        for line in p.stdout.splitlines():
            if line.startswith('RESULT'):
                return json.loads(line[6:]), None
        return None, (p.stderr or p.stdout)[-800:]
    except subprocess.TimeoutExpired:
        return None, 'child timeout'
    finally:
        os.unlink(path)


def gen_cases(tier, seed):
    from .common import gen_cases_corpus
    from .. import cases as casesmod
    r = random.Random(seed)
    n = 24 if tier == 'quick' else 600
    src = gen_cases_corpus(n, seed, opts={'max_stmts': 6}, with_repo=False)
    snips = [i for i, s in enumerate(casesmod.snippets()) if s['expect'] in ('success', 'trap')]
    src += [{'src': 'repo', 'idx': i} for i in (r.sample(snips, 24 if tier == 'quick' else len(snips)))]
    r.shuffle(src)
    B = 6
    out = []
    allc = [[o, g] for o in (0, 1, 2) for g in (False, True)]
    for i in range(0, len(src), B):
        k = i // B
        cfgs = allc if k % 4 == 0 else [allc[k % 6], allc[(k + 3) % 6]]
        out.append({'batch': src[i:i + B], 'configs': cfgs, 'hseed': seed * 31 + k})
    # directed sources, the language tour and error-handler programs: always under all six configurations
    from .. import tour
    from . import c10
    special = [{'src': 'text', 'text': t, 'seed': i} for i, t in enumerate(SPECIAL)]
    special += [{'src': 'tour', 'idx': i} for i in range(len(tour.TOUR)) if tier != 'quick' or i % 6 == seed % 6]
    for i in range(8 if tier == 'quick' else 120):
        r0 = random.Random(seed * 7919 + i)
        pl = c10.plan(r0)
        if pl['place'] in ('sub', 'function'):
            pl['steps'] = [s_ for s_ in pl['steps'] if s_['k'] != 'gosub']
        special.append({'src': 'text', 'text': c10.build(pl, random.Random(seed * 7919 + i + 1))[0], 'seed': i, 'scriptv': {}})
    for fi, fam in enumerate(FAMILIES):
        out.append({'batch': [{'src': 'text', 'text': t, 'seed': i, 'scriptv': {}} for i, t in enumerate(fam)],
                    'configs': allc if tier != 'quick' else [[0, False], [1, True], [2, False], [2, True]], 'hseed': seed * 41 + fi})
    SB = 4 if tier == 'quick' else 8
    for i in range(0, len(special), SB):
        out.append({'batch': special[i:i + SB], 'configs': allc, 'hseed': seed * 37 + i})
    if tier == 'quick':
        for c_ in out:
            c_['quick'] = True
    return out


def run_case(case):
    from .. import cases as casesmod, rt
    from .common import shape_of, V
    sources = []
    shapes = []
    for c in case['batch']:
        text, script, _ = casesmod.source_of(c)
        sources.append((text, script))
        shapes.append(shape_of(text))
    configs = case['configs']
    st = {'digests_compared': 0, 'child_processes': 0, 'history_compilations': 0, 'conditions': 0,
          'audit_events': 0, 'runs_compared': 0}
    viol = []
    r = random.Random(case['hseed'])
    # condition A: this (reused) process after a history of other compilations
    hist = [r.choice(HISTORY_POOL) for _ in range(r.randint(3, 12))]
    for h in hist:
        rt.compile_src(h, r.choice([0, 1, 2]), r.random() < 0.5)
        st['history_compilations'] += 1
    obs = {}
    obs['reused-after-history'] = observe_batch(sources, configs)
    obs['reused-again'] = observe_batch(sources, configs)
    obs['reused-reversed-order'] = observe_batch(sources, configs, reverse=True)
    other_cwd = tempfile.mkdtemp(prefix='qv-cwd-')
    job = {'sources': sources, 'configs': configs}
    conds = [('hash0', {'PYTHONHASHSEED': '0'}, VERIF, None, True),
             ('hash1', {'PYTHONHASHSEED': '1'}, VERIF, None, False),
             ('hash2', {'PYTHONHASHSEED': '7'}, VERIF, None, False),
             ('hashrandom', {'PYTHONHASHSEED': 'random'}, VERIF, None, False),
             ('cwd', {'PYTHONHASHSEED': '0'}, other_cwd, None, False),
             ('clock1970', {'PYTHONHASHSEED': '0'}, VERIF, 1000.0, False),
             ('clock2038', {'PYTHONHASHSEED': '0'}, VERIF, 2147483000.0, False),
             ('clock-midnight', {'PYTHONHASHSEED': '0'}, VERIF, 1767225599.9, False),
             ('reversed-order', {'PYTHONHASHSEED': '0'}, VERIF, None, False)]
    if case.get('quick'):
        # quick tier: other cwd and a fake clock share one child; the thorough tier keeps every condition separate
        conds = [c_ for c_ in conds if c_[0] in ('hash0', 'hash1', 'hash2', 'hashrandom', 'reversed-order')]
        conds.append(('cwd-clock2038', {'PYTHONHASHSEED': '0'}, other_cwd, 2147483000.0, False))
    problems = []
    for name, env, cwd, clock, audit in conds:
        j = dict(job)
        j['clock'] = clock
        j['audit'] = audit
        j['callmon'] = (name == 'hash2')
        j['reverse'] = (name == 'reversed-order')
        res, err = spawn(j, env, cwd)
        st['child_processes'] += 1
        if res is None:
            problems.append(f'{name}: {err}')
            continue
        obs[name] = res['digests']
        if name == 'hash2':
            st['callmon_children'] = st.get('callmon_children', 0) + 1
            for k_, v_ in (res.get('calls') or {}).items():
                st.setdefault('nondeterminism_call_sites', [])
                st['nondeterminism_call_sites'] = sorted(set(st['nondeterminism_call_sites']) | {k_})
        if res['audit']:
            st['audit_events'] += len(res['audit'])
            st.setdefault('audit_event_list', [])
            st['audit_event_list'] += [str(e) for e in res['audit'][:5]]
    try:
        os.rmdir(other_cwd)
    except OSError:
        pass
    if problems:
        return {'harness_error': '; '.join(problems)}
    ref_name = 'hash0'
    ref = obs[ref_name]
    nontrivial = False
    for name, o in obs.items():
        st['conditions'] += 1
        if name == ref_name:
            continue
        for key, d in ref.items():
            d2 = o.get(key)
            st['digests_compared'] += 1
            if d.get('status') == ['ok']:
                nontrivial = True
            if 'trace' in d:
                st['runs_compared'] += 1
            if d2 != d:
                fields = sorted(k for k in set(d) | set(d2 or {}) if (d2 or {}).get(k) != d.get(k))
                idx = int(key.split('|')[0])
                viol.append(V(f"C20:{'+'.join(fields)}:{name.rstrip('0123456789')}",
                              f'source {idx} config {key}: {ref_name} {d} vs {name} {d2}',
                              text=sources[idx][0][:800]))
    sample = {'first_source': sources[0][0][:400], 'configs': configs, 'conditions': sorted(obs),
              'digest_hash0': ref.get('0|' + f"{configs[0][0]}{'g' if configs[0][1] else ''}")}
    return {'viol': viol, 'stats': st, 'shape': shapes, 'nontrivial': nontrivial, 'sample': sample}
