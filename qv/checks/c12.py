"""C12 - debugger stepping and breakpoints are transparent and stop correctly."""
import itertools
import random
import re

from .. import cases, dbgdrv, rt
from .common import shape_of, gen_cases_corpus, V

PROP = 'C12'
LEVEL = 'exploration'
RULE = ('tagged programs with loops, GOSUBs, calls, recursion, one-line IFs, END in the middle, compiled -g at O0..O2; command '
        'histories over {step, next, stepi, nexti, continue, break L, delbr L}: random histories of length <=40 (L over all '
        'lines incl. blank/comment/declaration lines) always completed by continue, and every sequence of length <=4 (quick) / '
        '<=5 (thorough) on small programs; oracles: free run of the same module+script (device history, outcome), unique PRINT '
        'tags (one simple statement per step, stop line = line of the statement about to run), frame depth for next, '
        'independent breakpoint-address model and arrival counts from the free-run pc trace; non-trivial = history that '
        'executed >=1 command on a running program; distinct = (program shape, command history)')
ASSUMPTIONS = ['a session is cut at a tick budget (inconclusive for that history, never a violation)',
               'statement identity = debug record (start,end,line); the tag oracle needs no debug information']
REQUIRED_COUNTERS = ['sessions', 'commands', 'step_progress_checked', 'transparency_compared', 'breakpoint_stops_checked', 'info_commands',
                     'step_tag_checks']
CASE_TIMEOUT = 900
TAG_RE = re.compile(r'\b(4[1-9]\d{3})\b')
CMDS = ['step', 'next', 'stepi', 'nexti', 'continue', 'break', 'delbr']

SMALL = [
    "PRINT 41001&\nzq% = ztz% * 41002& + 1\nPRINT 41003&\n",
    "FOR zi% = 1 TO 2\nPRINT 41001&\nNEXT\nPRINT 41002&\n",
    "zs 1\nPRINT 41001&\nEND\nSUB zs (n%)\nPRINT 41002&\nPRINT 41003&\nEND SUB\n",
    "GOSUB zl\nPRINT 41001&\nEND\nzl: PRINT 41002&\nRETURN\n",
    "PRINT 41001&\nEND\nPRINT 41002&\n",
    "IF ztz% = 0 THEN PRINT 41001& ELSE PRINT 41002&\nPRINT 41003&\n",
    "zx% = zf%(2)\nPRINT 41001&\nFUNCTION zf% (n%)\nIF n% > 0 THEN zf% = zf%(n% - 1) + 1\nEND FUNCTION\n",
    "PRINT 41001&: PRINT 41002&\n\n' comment\nCONST zc = 1\nDIM zv AS INTEGER\nPRINT 41003&\n",
    "zk% = 0\nDO\nzk% = zk% + 1\nPRINT 41001&\nLOOP UNTIL zk% >= 2\n",
    "PRINT 41001&\nzq% = 1 \\ ztz%\nPRINT 41002&\n",
    "SELECT CASE ztz%\nCASE 1\nPRINT 41001&\nCASE ELSE\nPRINT 41002&\nEND SELECT\n",
    "IF ztz% THEN\nELSE\nEND IF\nWHILE ztz%\nWEND\nPRINT 41001&\n",
    "INPUT zv%\nPRINT 41001&; zv%\n",
    "zs\nzs\nSUB zs\nSTATIC zn\nzn = zn + 1\nPRINT 41001&; zn\nEND SUB\n",
    # machine state that survives between debugger commands: pending error code, handler mode, DATA cursor, RNG, cursor column
    "ON ERROR GOTO zh\nzq% = 1 \\ ztz%\nPRINT 41001&; ERR\nEND\nzh: PRINT 41002&; ERR\nRESUME NEXT\n",
    "ON ERROR RESUME NEXT\nzq% = 1 \\ ztz%\nPRINT 41001&; ERR\nzq% = 32767 + zq% + 1\nPRINT 41002&; ERR\n",
    "ON ERROR GOTO zh\nzq% = 1 \\ ztz%\nPRINT 41001&\nEND\nzh: PRINT 41002&\nON ERROR GOTO 0\nPRINT 41003&\n",
    "READ za%, zb%\nPRINT 41001&; za%\nRESTORE zd2\nREAD za%\nPRINT 41002&; za%; RND\nDATA 5, 6\nzd2: DATA 7\n",
    "PRINT 41001&;\nLOCATE 2, 5\nPRINT 41002&,\nPRINT 41003&\nRANDOMIZE 3\nPRINT 41004&; RND\n",
    "FOR zi% = 1 TO 4\nIF zi% MOD 2 = 0 THEN PRINT 41001&\nNEXT zi%\nzk% = 0\nDO\nzk% = zk% + 1\nIF zk% = 2 THEN PRINT 41002&\nLOOP WHILE zk% < 3\n",
    "zs 1\nzs 2\nSUB zs (n%)\nIF n% = 2 THEN PRINT 41001&\nEND SUB\n",
]


def stmt_key(s):
    if s is None:
        return None
    return (s.start_offset, s.end_offset, s.source_start_line)


def bp_model(di, line):
    """Independent model: first instruction of the first executable statement at or after `line`."""
    best = None
    for rec in di.stmts:
        if rec.end_offset - rec.start_offset <= 0 or rec.source_start_line is None:
            continue
        if rec.source_start_line >= line:
            k = (rec.source_start_offset, rec.start_offset)
            if best is None or k < best[0]:
                best = (k, rec.start_offset)
    return None if best is None else best[1]


def hit(active, pc):
    for a in active:
        if isinstance(a, tuple):
            if a[0] <= pc < a[1]:
                return True
        elif a == pc:
            return True
    return False


def run_history(mod, script, text, cmds, free, tagline, st, viol, ctx, budget=40000, autostatus='off'):
    """Execute one command history; append violations."""
    try:
        s = dbgdrv.DbgSession(mod, script, budget=budget, autostatus=autostatus)
    except SystemExit:
        viol.append(V('C12:debugger-exit', f'{ctx}: Cmd() called exit()'))
        return
    except Exception as e:  # noqa: BLE001
        viol.append(V(f'C12:debugger-init-crash:{rt.crash_sig(e)}', f'{ctx}: {e}', text=text))
        return
    st['sessions'] += 1
    di = mod.debug_info
    active = []       # model: list of breakpoint addresses
    executed = []
    inconclusive = False
    for c in cmds:
        name = c[0]
        arg = c[1] if len(c) > 1 else None
        line = name if arg is None else f'{name} {arg}'
        if name == 'info':
            # informational commands (bt, stack, cur, curi, annotate, break without argument, autostatus, print of a
            # constant): must not fail and must not move the machine
            snap0 = (s.cpu.pc, s.cpu.halted, s.cpu.halt_reason, len(s.cpu.stack), len(s.impl.h), s.frame_depth())
            out, exc = s.do(arg)
            executed.append(arg)
            st['commands'] += 1
            st['info_commands'] = st.get('info_commands', 0) + 1
            if exc is not None:
                viol.append(V(f'C12:host-exception:{arg.split()[0]}:{rt.crash_sig(exc) if not isinstance(exc, str) else exc}',
                              f'{ctx} autostatus={autostatus}: after {executed}: {type(exc).__name__}: {exc}', text=text, cmds=executed))
                return
            snap1 = (s.cpu.pc, s.cpu.halted, s.cpu.halt_reason, len(s.cpu.stack), len(s.impl.h), s.frame_depth())
            if snap0 != snap1:
                viol.append(V(f'C12:info-command-changed-state:{arg.split()[0]}', f'{ctx}: {executed}: (pc, halted, reason, stack, '
                              f'events, frames) {snap0} -> {snap1}', text=text, cmds=executed))
                return
            continue
        if name in ('breakx', 'delbrx'):
            # other breakpoint forms: a routine name (range of the routine's code) or a hexadecimal address
            line = f"{'break' if name == 'breakx' else 'delbr'} {arg}"
            name = name[:-1]
            if str(arg).startswith('0x'):
                model = int(arg, 16)
            else:
                rr = di.routines.get(str(arg).lower())
                model = (rr.start_offset, rr.end_offset) if rr is not None else None
            out, exc = s.do(line)
            executed.append(line)
            st['commands'] += 1
            st['other_breakpoint_forms'] = st.get('other_breakpoint_forms', 0) + 1
            if exc is not None:
                viol.append(V(f'C12:host-exception:{name}:{rt.crash_sig(exc) if not isinstance(exc, str) else exc}',
                              f'{ctx}: after {executed}: {exc}', text=text, cmds=executed))
                return
            if model is not None:
                if name == 'break':
                    active.append(model)
                elif model in active:
                    active.remove(model)
            continue
        fin0 = s.finished
        rec0 = s.cur_stmt()
        s0 = stmt_key(rec0)
        d0 = s.frame_depth()
        try:
            ins0 = s.cpu.get_instruction_at(s.cpu.pc)[0]
            if ins0 is not None and ins0.op == 'frame':
                d0 += 1     # stopped on a routine's frame instruction: we are already in that routine
        except Exception:
            pass
        h0 = len(s.impl.h)
        pr0 = sum(1 for e in s.impl.h if e[0] == 'print')
        pc0 = s.cpu.pc
        out, exc = s.do(line)
        executed.append(line)
        st['commands'] += 1
        if exc in ('tick-budget', 'script-exhausted'):
            inconclusive = True
            st['sessions_cut_by_budget'] = st.get('sessions_cut_by_budget', 0) + 1
            break
        if exc is not None:
            viol.append(V(f'C12:host-exception:{name}:{rt.crash_sig(exc)}', f'{ctx}: after {executed}: {type(exc).__name__}: {exc}',
                          text=text, cmds=executed))
            return
        if name == 'break':
            a = bp_model(di, arg)
            if a is not None:
                active.append(a)
            continue
        if name == 'delbr':
            a = bp_model(di, arg)
            if a in active:
                active.remove(a)
            continue
        if fin0:
            # program already finished: nothing may happen any more
            if len(s.impl.h) != h0 or s.cpu.pc != pc0:
                viol.append(V(f'C12:executes-after-finish:{name}', f'{ctx}: {executed}: program had finished, yet {name} '
                              f'moved pc {pc0:#x}->{s.cpu.pc:#x} / produced {len(s.impl.h) - h0} device events', text=text,
                              cmds=executed))
                return
            continue
        s1 = stmt_key(s.cur_stmt())
        new_prints = [e for e in s.impl.h[h0:] if e[0] == 'print']
        at_bp = (not s.finished) and hit(active, s.cpu.pc) and s.cpu.halt_reason.name == 'BREAKPOINT'
        if name in ('step', 'next'):
            st['step_progress_checked'] += 1
            if not s.finished and s1 == s0 and not at_bp:
                viol.append(V(f'C12:no-progress:{name}', f'{ctx}: {executed}: {name} returned in the same statement '
                              f'(line {s0[2] if s0 else None}) and the program is not finished', text=text, cmds=executed))
                return
            # tag oracle: a step runs at most one simple (tagged PRINT) statement, and it is the one we were stopped at
            tags = [p[1][0][2] for p in new_prints if p[1] and isinstance(p[1][0], list) and p[1][0][0] == 'v'
                    and p[1][0][2] in tagline]
            if name == 'step' and not active:
                st['step_tag_checks'] += 1
                if len(tags) > 1:
                    viol.append(V('C12:step-ran-several-statements', f'{ctx}: {executed}: one step executed the tagged '
                                  f'statements {tags}', text=text, cmds=executed))
                    return
                if len(tags) == 1 and rec0 is not None and type(rec0.node).__name__ != 'PrintStmt':
                    # the tagged PRINT ran inside a step that started in an enclosing statement (IF header, CASE clause...):
                    # stepping did not stop *in* the simple statement before executing it
                    viol.append(V(f'C12:step-skipped-a-statement:{type(rec0.node).__name__}', f'{ctx}: {executed}: stopped in the '
                                  f'{type(rec0.node).__name__} of line {s0[2]}, one step then executed the PRINT with tag {tags[0]} '
                                  f'(line {tagline[tags[0]]}) without stopping in it first', text=text, cmds=executed))
                    return
                if len(tags) == 1 and s0 is not None and s0[2] != tagline[tags[0]]:
                    viol.append(V('C12:step-stop-line', f'{ctx}: {executed}: stopped at line {s0[2]}, the step then executed the '
                                  f'statement of line {tagline[tags[0]]} (tag {tags[0]})', text=text, cmds=executed))
                    return
            if name == 'next' and not s.finished and not at_bp:
                st['next_depth_checked'] = st.get('next_depth_checked', 0) + 1
                if s.frame_depth() > d0:
                    viol.append(V('C12:next-stopped-in-callee', f'{ctx}: {executed}: next went from call depth {d0} to '
                                  f'{s.frame_depth()}', text=text, cmds=executed))
                    return
        if name == 'continue' and not s.finished:
            st['breakpoint_stops_checked'] += 1
            if not hit(active, s.cpu.pc):
                viol.append(V('C12:continue-stopped-without-breakpoint', f'{ctx}: {executed}: continue returned at pc '
                              f'{s.cpu.pc:#x} (line {s1[2] if s1 else None}); active breakpoints {[hex(a) for a in active]}',
                              text=text, cmds=executed))
                return
    if inconclusive:
        return
    # completion: continue until finished (breakpoints may stop us)
    guard = 0
    if any(isinstance(a, tuple) for a in active):
        # a routine breakpoint covers every instruction of the routine: drop those before running to the end
        for a in [a for a in active if isinstance(a, tuple)]:
            nm = next((k for k, rr in di.routines.items() if (rr.start_offset, rr.end_offset) == a), None)
            if nm is not None:
                s.do(f'delbr {nm}')
                executed.append(f'delbr {nm}')
            active.remove(a)
    while not s.finished and guard < 400:
        guard += 1
        out, exc = s.do('continue')
        if exc in ('tick-budget', 'script-exhausted'):
            st['sessions_cut_by_budget'] = st.get('sessions_cut_by_budget', 0) + 1
            return
        if exc is not None:
            viol.append(V(f'C12:host-exception:continue:{rt.crash_sig(exc)}', f'{ctx}: after {executed}+continue: {exc}',
                          text=text, cmds=executed))
            return
        if not s.finished:
            st['breakpoint_stops_checked'] += 1
            if not hit(active, s.cpu.pc):
                viol.append(V('C12:continue-stopped-without-breakpoint', f'{ctx}: {executed}+continue x{guard}: stopped at '
                              f'{s.cpu.pc:#x}, active {[hex(a) for a in active]}', text=text, cmds=executed))
                return
    if not s.finished:
        return
    # one more of each command after the end must change nothing
    h_end = len(s.impl.h)
    pc_end = s.cpu.pc
    for extra in ('step', 'next', 'continue', 'stepi'):
        out, exc = s.do(extra)
        if exc is not None and exc not in ('tick-budget', 'script-exhausted'):
            viol.append(V(f'C12:host-exception-after-finish:{extra}:{rt.crash_sig(exc)}', f'{ctx}: {exc}', text=text,
                          cmds=executed))
            return
        if len(s.impl.h) != h_end or exc is not None:
            viol.append(V(f'C12:executes-after-finish:{extra}', f'{ctx}: {executed} then finished; a further {extra} produced '
                          f'{len(s.impl.h) - h_end} more device events (pc {pc_end:#x}->{s.cpu.pc:#x})', text=text,
                          cmds=executed))
            return
    st['transparency_compared'] += 1
    hist = s.impl.h
    if hist != free['hist']:
        from ..diff import first_diff
        d = first_diff(free['hist'], hist)
        viol.append(V('C12:history-differs-from-free-run', f'{ctx}: {executed}: event {d[0]}: free run {str(d[1])[:100]} vs '
                      f'debugged {str(d[2])[:100]}', text=text, cmds=executed))
        return
    oc = s.outcome()
    if oc != free['outcome']:
        viol.append(V(f'C12:outcome-differs:{free["outcome"][0]}->{oc[0]}', f'{ctx}: {executed}: free run ended {free["outcome"]}, '
                      f'debugged run {oc}', text=text, cmds=executed))


def run_stepcover(case, text, script, tagline, st, viol, shapes):
    """Pure stepping session: every tagged statement the program executes (seen as the push of its unique literal) lies on a
    line the debugger stopped at."""
    for O in (0, 1, 2):
        c = rt.compile_src(text, O, True)
        if c.status != 'ok':
            continue
        mod = rt.load_module(c.modbytes)
        try:
            s = dbgdrv.DbgSession(mod, script, budget=60000, autostatus=['off', 'cur', 'curi'][O])
        except Exception as e:  # noqa: BLE001
            viol.append(V(f'C12:debugger-init-crash:{rt.crash_sig(e)}', f'O{O}g: {e}', text=text))
            continue
        st['sessions'] += 1
        pushed = []
        orig = s.cpu._exec_push_long

        def push_long(value, _orig=orig, _pushed=pushed):
            if value in tagline:
                _pushed.append(value)
            return _orig(value)
        s.cpu._exec_push_long = push_long
        stops = set()
        k0 = stmt_key(s.cur_stmt())
        if k0:
            stops.add(k0[2])
        n = 0
        ok = True
        while not s.finished and n < 4000:
            n += 1
            out, exc = s.do('step')
            st['commands'] += 1
            if exc in ('tick-budget', 'script-exhausted'):
                ok = False
                st['sessions_cut_by_budget'] = st.get('sessions_cut_by_budget', 0) + 1
                break
            if exc is not None:
                viol.append(V(f'C12:host-exception:step:{rt.crash_sig(exc)}', f'O{O}g: stepping: {exc}', text=text))
                ok = False
                break
            k1 = stmt_key(s.cur_stmt())
            if k1 and not s.finished:
                stops.add(k1[2])
        if not ok or not s.finished:
            continue
        executed_lines = {tagline[t] for t in pushed}
        st['step_cover_lines_checked'] = st.get('step_cover_lines_checked', 0) + len(executed_lines)
        shapes.append(f'{shape_of(text)}|{O}|stepcover')
        missing = sorted(executed_lines - stops)
        if missing:
            ln = missing[0]
            viol.append(V('C12:executed-statement-never-stopped-in', f'O{O}g: stepping through the whole program stopped on lines '
                          f'{sorted(stops)[:40]}; the tagged statement on line {ln} ({text.split(chr(10))[ln - 1].strip()[:60]!r}) was '
                          f'executed without a stop in it', text=text, line=ln))


def gen_cases(tier, seed):
    cs = []
    n = 40 if tier == 'quick' else 500
    for i, b in enumerate(gen_cases_corpus(n, seed, opts={'max_stmts': 6, 'max_depth': 2, 'tags': True, 'input': False},
                                           with_repo=False)):
        cs.append({'kind': 'random', 'base': b, 'k': i, 'nhist': 8 if tier == 'quick' else 20, 'hseed': seed * 13 + i})
    L = 4 if tier == 'quick' else 5
    for i, t in enumerate(SMALL):
        for O in ((i % 3,) if tier == 'quick' else (0, 1, 2)):
            cs.append({'kind': 'exhaustive', 'base': {'src': 'text', 'text': t, 'seed': i}, 'O': O, 'L': L, 'k': i})
    for i, t in enumerate(SMALL):
        cs.append({'kind': 'bpcount', 'base': {'src': 'text', 'text': t, 'seed': i}, 'k': i})
    # programs with error handlers / RESUME / ON ERROR RESUME NEXT (the C10 program family): transparency under random histories
    for i in range(12 if tier == 'quick' else 200):
        cs.append({'kind': 'random', 'errprog': seed * 7919 + i, 'base': None, 'k': i, 'nhist': 6 if tier == 'quick' else 15,
                   'hseed': seed * 17 + i})
    for i, b in enumerate(gen_cases_corpus(n // 2, seed + 3, opts={'max_stmts': 6, 'max_depth': 2, 'tags': True, 'input': False},
                                           with_repo=False)):
        cs.append({'kind': 'bpcount', 'base': b, 'k': i})
    for i, b in enumerate(gen_cases_corpus(n, seed + 9, opts={'max_stmts': 7, 'max_depth': 2, 'tags': True, 'input': False},
                                           with_repo=False)):
        cs.append({'kind': 'stepcover', 'base': b, 'k': i})
    for c_ in cs:
        if c_.get('base') and c_['base'].get('src') == 'gen' and c_['k'] % 3 == 1:
            c_['procs_first'] = True
    return cs


EXHAUSTIVE = {}


def free_run(mod, script):
    r = rt.run_module(mod, script, max_ticks=40000)
    oc = r.outcome
    return {'hist': r.history, 'outcome': oc, 'ticks': r.ticks}


def pc_trace(mod, script):
    m, impl = rt.make_machine(mod, script)
    cpu = m.cpu
    import contextlib
    import io
    pcs = [cpu.pc]
    with contextlib.redirect_stdout(io.StringIO()):
        n = 0
        while not cpu.halted and cpu.pc < len(mod.code) and n < 40000:
            cpu.tick()
            n += 1
            if not cpu.halted:
                pcs.append(cpu.pc)      # where a halted machine's pc points is not a place control reached
    return pcs, cpu.halted


MID_ENTRY_OK = {('ForStmt', 'NextStmt'),          # loop back edge: NEXT jumps to the test inside the FOR statement
                ('ElseIfStmt', 'IfBeginStmt'), ('ElseIfStmt', 'ElseIfStmt'), ('ElseStmt', 'IfBeginStmt'),
                ('ElseStmt', 'ElseIfStmt')}     # clause records begin with the jump that closes the previous branch


def entry_monitor(mod, pcs):
    """Control must enter every statement record at its first instruction (otherwise a line breakpoint, which sits on that
    instruction, would miss arrivals).  Allowed: returning into a caller (ret*), falling back into an enclosing record, and
    the two structural back/side edges listed in MID_ENTRY_OK.  -> (transitions checked, list of (kind, from_kind, a, b, line))"""
    di = mod.debug_info
    recs = [r_ for r_ in di.stmts if r_.end_offset > r_.start_offset]
    cache = {}

    def inner(pc):
        if pc not in cache:
            best = None
            for r_ in recs:
                if r_.start_offset <= pc < r_.end_offset and (best is None or r_.end_offset - r_.start_offset
                                                              < best.end_offset - best.start_offset):
                    best = r_
            cache[pc] = best
        return cache[pc]
    from qvm.instrs import op_code_to_instr
    bad = []
    n = 0
    for a, b in zip(pcs, pcs[1:]):
        ra, rb = inner(a), inner(b)
        if rb is None or ra is rb:
            continue
        n += 1
        if b == rb.start_offset:
            continue
        if ra is not None and rb.start_offset <= ra.start_offset and ra.end_offset <= rb.end_offset:
            continue
        ins = op_code_to_instr.get(mod.code[a])
        if ins is not None and ins.op.startswith('ret'):
            continue
        kb = type(rb.node).__name__
        ka = type(ra.node).__name__ if ra is not None else None
        if (kb, ka) in MID_ENTRY_OK:
            continue
        bad.append((kb, ka, a, b, rb.source_start_line))
    return n, bad


def run_case(case):
    st = {'sessions': 0, 'commands': 0, 'step_progress_checked': 0, 'transparency_compared': 0,
          'breakpoint_stops_checked': 0, 'step_tag_checks': 0}
    viol = []
    shapes = []
    if case.get('errprog') is not None:
        from . import c10
        r0 = random.Random(case['errprog'])
        pl = c10.plan(r0)
        if pl['place'] in ('sub', 'function'):
            pl['steps'] = [s_ for s_ in pl['steps'] if s_['k'] != 'gosub']
        text = c10.build(pl, random.Random(case['errprog'] + 1))[0]
        script = {}
        st['error_handler_programs'] = 1
    else:
        text, script, meta = cases.source_of(case['base'])
    if case.get('procs_first'):
        # the same program with its SUB/FUNCTION blocks written before the module-level code (source order and address order
        # of the statements then differ: procedures are always emitted after the main code)
        ls_ = text.split('\n')
        cut = next((i for i, l_ in enumerate(ls_) if l_.upper().startswith(('SUB ', 'FUNCTION '))), None)
        if cut:
            last_end = max(i for i, l_ in enumerate(ls_) if l_.upper().startswith(('END SUB', 'END FUNCTION')))
            text = '\n'.join(ls_[cut:last_end + 1] + ['CONST zafterprocs% = 1', 'REM module-level code'] + ls_[:cut] + ls_[last_end + 1:])
            st['procs_first_programs'] = 1
    lines = text.split('\n')
    tagline = {}
    for li, ltxt in enumerate(lines):
        if case.get('errprog') is not None:
            break               # tags are printed by helper SUBs there: the tag oracle does not apply
        for m_ in TAG_RE.finditer(ltxt):
            tagline[int(m_.group(1))] = li + 1
    nlines = len(lines)
    sample = None
    if case['kind'] == 'random':
        r = random.Random(case['hseed'])
        for O in ((case['k'] % 3,) if case['k'] % 4 else (0, 1, 2)):
            c = rt.compile_src(text, O, True)
            if c.status != 'ok':
                continue
            mod = rt.load_module(c.modbytes)
            free = free_run(mod, script)
            if free['outcome'][0] in ('tick_budget', 'crash', 'script_exhausted'):
                continue
            rnames = sorted(mod.debug_info.routines) or ['nosuchroutine']
            starts = [r_.start_offset for r_ in mod.debug_info.stmts if r_.end_offset > r_.start_offset] or [0]
            for h in range(case['nhist']):
                cmds = []
                # two thirds of the histories also carry informational commands and the other breakpoint forms, and run with
                # the debugger's own status display on (source context = its default, or instruction context)
                noisy = h % 3 != 0
                for _ in range(r.randint(1, 40)):
                    if noisy and r.random() < 0.25:
                        k_ = r.random()
                        if k_ < 0.7:
                            cmds.append(['info', r.choice(['bt', 'stack', 'cur', 'curi', 'break', 'autostatus', 'print 1 + 1',
                                                           'annotate', 'help', 'print nosuchname'])])
                        elif k_ < 0.85:
                            cmds.append([r.choice(['breakx', 'breakx', 'delbrx']), r.choice(rnames + ['nosuchroutine'])])
                        else:
                            cmds.append([r.choice(['breakx', 'breakx', 'delbrx']), hex(r.choice(starts))])
                        continue
                    nm = r.choice(CMDS + ['step', 'step', 'next'])
                    if nm in ('break', 'delbr'):
                        cmds.append([nm, r.randint(1, nlines + 1)])
                    else:
                        cmds.append([nm])
                before = len(viol)
                run_history(mod, script, text, cmds, free, tagline, st, viol, f'O{O}g',
                            autostatus=['off', 'cur', 'curi'][h % 3])
                shapes.append(f'{shape_of(text)}|{O}|{h}')
                if len(viol) > before:
                    break
            if sample is None:
                sample = {'program': text[:300], 'history': [' '.join(map(str, c_)) for c_ in cmds][:12]}
    elif case['kind'] == 'stepcover':
        run_stepcover(case, text, script, tagline, st, viol, shapes)
        sample = {'program': text[:300], 'step_cover_lines_checked': st.get('step_cover_lines_checked', 0)}
    elif case['kind'] == 'exhaustive':
        O = case['O']
        c = rt.compile_src(text, O, True)
        if c.status == 'ok':
            mod = rt.load_module(c.modbytes)
            free = free_run(mod, script)
            bl = 1 + (case['k'] % max(1, nlines - 1))
            alphabet = [['step'], ['next'], ['stepi'], ['nexti'], ['continue'], ['break', bl], ['delbr', bl]]
            nseq = 0
            seen_sigs = set()
            for n in range(1, case['L'] + 1):
                for seq in itertools.product(alphabet, repeat=n):
                    before = len(viol)
                    run_history(mod, script, text, list(seq), free, tagline, st, viol, f'O{O}g', budget=20000)
                    nseq += 1
                    # keep one witness per signature
                    if len(viol) > before:
                        if viol[-1]['sig'] in seen_sigs:
                            viol.pop()
                        else:
                            seen_sigs.add(viol[-1]['sig'])
            shapes.append(f'{shape_of(text)}|{O}|exhaustive{case["L"]}')
            st['exhaustive_sequences'] = nseq
            sample = {'program': text[:200], 'exhaustive_sequences': nseq, 'alphabet': [' '.join(map(str, a)) for a in alphabet]}
    else:
        for O in (0, 1, 2):
            c = rt.compile_src(text, O, True)
            if c.status != 'ok':
                continue
            mod = rt.load_module(c.modbytes)
            free = free_run(mod, script)
            if free['outcome'][0] in ('tick_budget', 'crash', 'script_exhausted'):
                continue
            pcs, _ = pc_trace(mod, script)
            di = mod.debug_info
            n_ent, bad_ent = entry_monitor(mod, pcs)
            st['statement_entries_checked'] = st.get('statement_entries_checked', 0) + n_ent
            for kb, ka, a_, b_, ln_ in bad_ent[:1]:
                viol.append(V(f'C12:statement-entered-past-its-first-instruction:{kb}<-{ka}', f'O{O}g: control goes from '
                              f'{a_:#x} ({ka}) to {b_:#x}, inside the {kb} record of line {ln_} but not at its first instruction: '
                              f'a breakpoint on line {ln_} misses this arrival', text=text, line=ln_))
            # where the debugger starts: first pc with a statement
            class F:
                pass
            r = random.Random(case['k'] * 7 + O)
            cand = list(range(1, nlines + 2))
            r.shuffle(cand)
            for L in cand[:6]:
                addr = bp_model(di, L)
                s = dbgdrv.DbgSession(mod, script)
                st['sessions'] += 1
                start_pc = s.cpu.pc
                try:
                    i0 = pcs.index(start_pc)
                except ValueError:
                    continue
                expected = sum(1 for p in pcs[i0 + 1:] if p == addr) if addr is not None else 0
                out, exc = s.do(f'break {L}')
                stops = 0
                bad = None
                guard = 0
                while not s.finished and guard < 2000:
                    guard += 1
                    out, exc = s.do('continue')
                    st['commands'] += 1
                    if exc is not None:
                        bad = f'exception {exc}'
                        break
                    if not s.finished:
                        stops += 1
                        st['breakpoint_stops_checked'] += 1
                        if s.cpu.pc != addr:
                            bad = f'stopped at {s.cpu.pc:#x}, breakpoint address is {addr}'
                            break
                shapes.append(f'{shape_of(text)}|{O}|bp{L}')
                if bad:
                    viol.append(V('C12:breakpoint-stop-address', f'O{O}g: break {L}: {bad}', text=text, line=L))
                elif stops != expected:
                    viol.append(V('C12:breakpoint-stop-count', f'O{O}g: break {L} (address {addr}): continue stopped {stops} '
                                  f'times, control reaches that instruction {expected} times in the free run', text=text, line=L))
                elif s.impl.h != free['hist']:
                    viol.append(V('C12:history-differs-from-free-run', f'O{O}g: break {L} + continues: history differs', text=text))
                else:
                    st['transparency_compared'] += 1
                # deleted breakpoint never stops
                s2 = dbgdrv.DbgSession(mod, script)
                s2.do(f'break {L}')
                s2.do(f'delbr {L}')
                out, exc = s2.do('continue')
                st['sessions'] += 1
                if exc is None and not s2.finished:
                    viol.append(V('C12:deleted-breakpoint-stops', f'O{O}g: break {L}; delbr {L}; continue stopped at '
                                  f'{s2.cpu.pc:#x}', text=text, line=L))
            sample = {'program': text[:200], 'breakpoint_lines_tried': cand[:6]}
    return {'viol': viol, 'stats': st, 'shape': shapes, 'nontrivial': bool(shapes), 'sample': sample}
