"""C03 - accepted programs are type- and stack-safe on the virtual machine (per-tick CPU monitor)."""
import random

from .. import cases, mon, rt
from .common import shape_of, gen_cases_corpus, V

PROP = 'C03'
LEVEL = 'exploration'
RULE = ('each case = one accepted source x configs x up to N input scripts (re-drawn until both outcomes of >=90% of the '
        'executed jz sites were seen), plus near-miss argument-passing programs (run whenever the compiler accepts them); '
        'monitors on every tick: pc on instruction start, cell accesses inside their segment, '
        'cells keep one type, typed reads push their type, stack values fit their type, stack depth at statement starts '
        '(-g), machine-fault traps, host exceptions; non-trivial = >=20 ticks monitored; distinct = shape hash')
ASSUMPTIONS = ['decided on concrete runs only (the abstract-interpretation half of the quantifier is outside this technique); '
               'path reach is reported as jz sites seen both ways / one way']
REQUIRED_COUNTERS = ['ticks_monitored', 'cell_writes_checked', 'typed_reads_checked', 'stmt_boundaries_checked', 'jz_sites',
                     'declared_type_stores_checked']

DEVICE_ARG_FORMS = [
    "LOCATE 1, 2\nLOCATE 3, 4, 1\nLOCATE 3, 4, 1, 2, 3\nLOCATE , , 0\nPRINT 1\n",
    "COLOR 1\nCOLOR 1, 2\nCOLOR 1, 2, 3\nCOLOR , 2\nCOLOR , , 3\nCOLOR 1, , 3\nPRINT 1\n",
    "SCREEN 0\nWIDTH 80\nWIDTH 80, 25\nWIDTH , 25\nVIEW PRINT 1 TO 10\nVIEW PRINT\nPRINT 1\n",
    "SOUND 440, 2\nPLAY \"abc\"\nBEEP\nCLS\nDEF SEG = 0\nPOKE 1047, 0\nx = PEEK(1047)\nDEF SEG\nPRINT x\n",
    "RANDOMIZE 5\nx = RND\ny = RND(1)\nz = RND(0)\nw = RND(-1)\nt = TIMER\nk$ = INKEY$\nPRINT x; y; z; w; t; k$\n",
    "INPUT a%, b&, c!, d#, e$\nPRINT a%; b&; c!; d#; e$\nGOSUB s\nEND\ns: INPUT \"p\"; q\nPRINT q\nRETURN\n",
    "x# = 5.5# \\ 2\nPRINT x#\ny! = 7.5 MOD 2\nPRINT y!\nz# = NOT 1.5#\nPRINT z#\n",
    "x = 5\nDO\nx = x - 1\nLOOP UNTIL x\nPRINT x\n",
    "x = 3\nDO\nx = x - 1\nLOOP WHILE x\nPRINT x\n",
    "x# = 2\nDO UNTIL x#\nLOOP\nDO WHILE x# - 2\nLOOP\nPRINT x#\n",
    "foo 3\nSUB foo (n%)\nFOR n% = 1 TO 2\nNEXT\nPRINT n%\nEND SUB\n",
    "TYPE t\na AS INTEGER\nb AS LONG\nEND TYPE\nDIM r AS t\nr.a = 1: r.b = 2\nbar r\nSUB bar (p AS t)\nPRINT p.a; p.b\nEND SUB\n",
    "SELECT CASE 1.5\nCASE 1 TO 2\nPRINT \"a\"\nCASE IS > 5\nPRINT \"b\"\nEND SELECT\nSELECT CASE \"x\"\nCASE \"a\" TO \"z\"\nPRINT \"c\"\nEND SELECT\n",
    "FOR i% = 1 TO 3 STEP 2\nFOR j& = 3 TO 1 STEP -1\nFOR k# = 0 TO 1 STEP 0.5\nPRINT i%; j&; k#\nNEXT k#, j&\nNEXT\n",
    "DIM a(2) AS STRING\na(1) = \"x\"\nPRINT a(1) + a(2); LEN(a(0))\nx$ = MID$(\"hello\", 2)\ny$ = MID$(\"hello\", 2, 2)\nPRINT x$; y$; INSTR(\"hello\", \"l\"); INSTR(2, \"hello\", \"l\")\n",
    "PRINT STRING$(3, 65); STRING$(2, \"ab\"); SPACE$(2); STR$(5); VAL(\"7\"); ASC(\"A\"); CHR$(66); ABS(-3.5); INT(2.5); CINT(2.5); CLNG(3.5)\n",
    "IF 1.5 THEN PRINT 1\nIF 2& THEN PRINT 2\nIF 3# THEN PRINT 3 ELSE PRINT 4\nWHILE 0.5 - 0.5\nWEND\n",
]


def gen_cases(tier, seed):
    n = 70 if tier == 'quick' else 1200
    cs = []
    for i, b in enumerate(gen_cases_corpus(n, seed, opts={'max_stmts': 8, 'seed_vars': True}, with_repo=True)):
        cs.append({'base': b, 'k': i, 'nscripts': 3 if tier == 'quick' else 8})
    # the systematic operator/builtin x operand-type programs of C01 (typed contexts: assignment, argument, index)
    import random as _random
    from . import c01
    from ..gen import render as _render
    nu = 60 if tier == 'quick' else 1200
    for i in range(nu):
        prog = c01.unit_program(_random.Random(seed * 7919 + i), i)
        cs.append({'base': {'src': 'text', 'text': _render.render(prog)[0], 'seed': i}, 'k': i, 'nscripts': 1})
    # error-handler programs (the C10 family): module-level handlers entered from procedure frames, RESUME into them
    from . import c10
    for i in range(30 if tier == 'quick' else 600):
        pl = c10.plan(_random.Random(seed * 6007 + i))
        if pl['place'] in ('sub', 'function'):
            pl['steps'] = [s_ for s_ in pl['steps'] if s_['k'] != 'gosub']
        t = c10.build(pl, _random.Random(seed * 6007 + i + 1))[0]
        cs.append({'base': {'src': 'text', 'text': t, 'seed': i, 'scriptv': {}}, 'k': i, 'nscripts': 1})
    for i, t in enumerate(DEVICE_ARG_FORMS):
        cs.append({'base': {'src': 'text', 'text': t, 'seed': i}, 'k': i, 'nscripts': 3, 'allcfg': True})
    from .common import shape_cases
    for i, b_ in enumerate(shape_cases(45 if tier == 'quick' else None, seed)):
        cs.append({'base': b_, 'k': i, 'nscripts': 1, 'allcfg': True})
    # near-miss argument passing (every by-reference location form x argument type x parameter type, arrays, records):
    # whatever the compiler accepts of these is run under the monitors; the mismatching ones are rejected on a correct tree
    from .. import nearmiss
    for i, (tag, t, rej, _ln) in enumerate(nearmiss.all_programs()):
        cs.append({'base': {'src': 'text', 'text': t, 'seed': i}, 'k': i, 'nscripts': 1, 'nearmiss': tag, 'must_reject': rej})
    return cs


def run_case(case):
    text, script0, meta = cases.source_of(case['base'])
    st = {'ticks_monitored': 0, 'cell_writes_checked': 0, 'typed_reads_checked': 0, 'stmt_boundaries_checked': 0,
          'jz_sites': 0, 'jz_both_ways': 0, 'jz_one_sided': 0, 'runs': 0, 'cell_accesses_checked': 0,
          'reads_checked': 0, 'stack_values_checked': 0, 'machine_fault_traps': 0, 'language_traps': 0,
          'declared_type_stores_checked': 0}
    viol = []
    k = case['k']
    cfgs = rt.CONFIGS6 if case.get('allcfg') else [rt.CONFIGS6[k % 6], rt.CONFIGS6[(k + 3) % 6]]
    nontrivial = False
    for cfg in cfgs:
        c = rt.compile_src(text, cfg[0], cfg[1])
        if case.get('nearmiss'):
            key = 'nearmiss_rejected' if c.status != 'ok' else ('nearmiss_mismatch_accepted_and_run' if case['must_reject']
                                                                else 'nearmiss_controls_run')
            st[key] = st.get(key, 0) + 1
        if c.status != 'ok':
            continue
        mod = rt.load_module(c.modbytes)
        seen = {}
        for si in range(case['nscripts']):
            script = script0 if si == 0 else cases.gen_script(k * 1000 + si * 7 + 1)
            holder = {}

            def factory(cpu):
                holder['m'] = mon.default_monitors()
                return holder['m']
            r = rt.run_module(mod, script, max_ticks=30000, cpu_class=mon.with_monitors(factory), keep=True)
            ms = {m.name: m for m in holder['m']}
            for m in holder['m']:
                m.finish(r.cpu)
            st['runs'] += 1
            st['ticks_monitored'] += r.ticks
            if r.ticks >= 20:
                nontrivial = True
            st['cell_writes_checked'] += ms['cell-monomorphism'].count
            st['typed_reads_checked'] += ms['cell-monomorphism'].typed_reads
            st['stmt_boundaries_checked'] += ms['stmt-boundary-depth'].count
            st['cell_accesses_checked'] += ms['segment-bounds'].count
            st['reads_checked'] += ms['reads-write-nothing'].count
            st['stack_values_checked'] += ms['stack-value-contract'].count
            st['declared_type_stores_checked'] += ms['declared-types'].count
            for a, s in ms['branch-coverage'].seen.items():
                seen.setdefault(a, set()).update(s)
            cn = rt.cfg_name(cfg)
            for m in holder['m']:
                for sig, msg in m.viol:
                    if sig.startswith('C04:'):
                        sig = 'C03:' + sig[4:]
                    viol.append(V(sig, f'{cn}: {msg}', text=text, cfg=cfg, script=si))
            oc = r.outcome
            if oc[0] == 'trap':
                if oc[1] in rt.MACHINE_FAULTS:
                    st['machine_fault_traps'] += 1
                    viol.append(V(f'C03:machine-fault:{oc[1]}', f'{cn}: run ended in {oc[1]} (line {r.trap_line}); '
                                  f'stdout: {r.stdout[-200:]!r}', text=text, cfg=cfg, script=si))
                else:
                    st['language_traps'] += 1
            elif oc[0] == 'crash':
                viol.append(V(f'C03:host-exception:{oc[1]}', f'{cn}: {r.crash_tb[-300:]}', text=text, cfg=cfg, script=si))
            both = sum(1 for s in seen.values() if len(s) == 2)
            if seen and both >= 0.9 * len(seen):
                break
        st['jz_sites'] += len(seen)
        st['jz_both_ways'] += sum(1 for s in seen.values() if len(s) == 2)
        st['jz_one_sided'] += sum(1 for s in seen.values() if len(s) == 1)
    sample = None
    if nontrivial and case['base']['src'] != 'repo':
        sample = {'source': text[:400], 'configs': [rt.cfg_name(c) for c in cfgs], 'ticks': st['ticks_monitored'],
                  'jz_sites': st['jz_sites'], 'jz_both_ways': st['jz_both_ways']}
    return {'viol': viol, 'stats': st, 'shape': shape_of(text), 'nontrivial': nontrivial, 'sample': sample}
