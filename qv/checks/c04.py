"""C04 - variables, array elements and record fields never overlap or leak."""
import itertools
import random

from .. import mon, rt
from .common import V

PROP = 'C04'
LEVEL = 'exploration'
RULE = ('declaration layouts = [neighbour] shape [neighbour] with shape in {scalar of each type, record, nested record (depth<=3), '
        'array rank 1-3 with lower bounds in {-2,0,1,5}, array of records, dynamic-bound array} x scope in {main local, SHARED, '
        'procedure local, STATIC, STATIC procedure, by-reference parameter, expression argument}; per layout: unique typed '
        'sentinels written to every location (forward / reverse / interleaved), read-before-write next to live data, by-reference '
        'writes through call depth 1-4, expression arguments, recursion with per-activation sentinels, second activation sees '
        'fresh locals but persistent STATIC, SHARED seen from procedures; oracle = store model of named locations (values by '
        'construction) + cell-level monitors (reads write nothing; cells keep their type); non-trivial = >=4 locations read '
        'back; distinct = (layout, scope, phase order)')
ASSUMPTIONS = ['arrays are kept to <=30 elements so that every element is written and read']
REQUIRED_COUNTERS = ['layouts', 'locations', 'reads_compared', 'byref_writes', 'recursive_activations', 'read_monitor_evaluations']

TYPES = '%&!#$'
TNAME = {'%': 'INTEGER', '&': 'LONG', '!': 'SINGLE', '#': 'DOUBLE', '$': 'STRING'}


class Layout:
    def __init__(self, r):
        self.r = r
        self.types = {}      # record type name -> [(field, type or ('rec', name))]
        self.n = 0

    def fresh(self, p):
        self.n += 1
        return f'z{p}{self.n}'

    def make_record(self, depth):
        r = self.r
        name = self.fresh('T')
        fields = []
        for _ in range(r.randint(1, 4)):
            if depth > 1 and r.random() < 0.4:
                ft = ('rec', self.make_record(depth - 1))
            else:
                ft = r.choice(TYPES)
            fields.append((self.fresh('f'), ft))
        self.types[name] = fields
        return name

    def shape(self, kind):
        """-> decl dict: name, base type, dims (list of (lb,ub)) or None, dynamic flag"""
        r = self.r
        nm = self.fresh('v')
        if kind == 'scalar':
            return {'name': nm, 'type': r.choice(TYPES), 'dims': None, 'dyn': False}
        if kind == 'record':
            return {'name': nm, 'type': ('rec', self.make_record(1)), 'dims': None, 'dyn': False}
        if kind == 'nested':
            return {'name': nm, 'type': ('rec', self.make_record(r.choice([2, 3]))), 'dims': None, 'dyn': False}
        rank = {'array1': 1, 'array2': 2, 'array3': 3, 'arrayrec': r.choice([1, 2]), 'dynarray': r.choice([1, 2])}[kind]
        dims = []
        for _ in range(rank):
            lb = r.choice([-2, 0, 1, 5])
            dims.append((lb, lb + r.randint(0, 2)))
        t = ('rec', self.make_record(r.choice([1, 2]))) if kind == 'arrayrec' else r.choice(TYPES)
        return {'name': nm, 'type': t, 'dims': dims, 'dyn': kind == 'dynarray'}

    def fields(self, base, t):
        if isinstance(t, tuple):
            out = []
            for fn, ft in self.types[t[1]]:
                out += self.fields(f'{base}.{fn}', ft)
            return out
        return [(base, t)]

    def locations(self, d):
        if d['dims'] is None:
            return self.fields(d['name'], d['type'])
        out = []
        for idx in itertools.product(*[range(lb, ub + 1) for lb, ub in d['dims']]):
            out += self.fields(f"{d['name']}({', '.join(map(str, idx))})", d['type'])
        return out

    def decl_text(self, d, kw):
        s = f"{kw} {d['name']}"
        if d['dims'] is not None:
            parts = []
            for lb, ub in d['dims']:
                ubs = f'{ub} + zdynz%' if d['dyn'] else str(ub)
                lbs = str(lb)
                if not d['dyn'] and self.r.random() < 0.25:
                    # fractional constant bound; the declared bound is the rounded value (halves go to the even neighbour,
                    # so a tie is only written next to an even bound, where it rounds back to that bound)
                    ubs = repr(ub + self.r.choice([0.4, -0.3] + ([0.5, -0.5] if ub % 2 == 0 else [])))
                if not d['dyn'] and self.r.random() < 0.2:
                    lbs = repr(lb + self.r.choice([0.4, -0.3] + ([0.5, -0.5] if lb % 2 == 0 else [])))
                    parts.append(f'{lbs} TO {ubs}')
                    continue
                parts.append(f'{lb} TO {ubs}' if (lb != 0 or self.r.random() < 0.5) else ubs)
            s += '(' + ', '.join(parts) + ')'
        t = d['type']
        s += f" AS {t[1] if isinstance(t, tuple) else TNAME[t]}"
        return s

    def type_defs(self):
        out = []
        # inner types must be defined first: definition order = creation order reversed for nesting
        for name in sorted(self.types, key=lambda n: int(n[2:]), reverse=True):
            out.append(f'TYPE {name}')
            for fn, ft in self.types[name]:
                out.append(f"  {fn} AS {ft[1] if isinstance(ft, tuple) else TNAME[ft]}")
            out.append('END TYPE')
        return out


SENT = [0]


def sentinel(t, k):
    if t == '%':
        return 1000 + k
    if t == '&':
        return 100000 + k
    if t == '!':
        return k + 0.25
    if t == '#':
        return k + 0.125
    return f's{k}'


def lit(t, v):
    if t == '$':
        return f'"{v}"'
    if t == '%':
        return str(v)
    if t == '&':
        return f'{v}&'
    if t == '!':
        return repr(float(v))
    return repr(float(v)) + '#'


def default(t):
    return '' if t == '$' else (0 if t in '%&' else 0.0)


KINDS = ['scalar', 'record', 'nested', 'array1', 'array2', 'array3', 'arrayrec', 'dynarray']
SCOPES = ['main', 'shared', 'proc', 'static', 'staticproc']


def build(seed, kind, scope):
    r = random.Random(seed)
    L = Layout(r)
    decls = []
    for part in ('before', 'shape', 'after'):
        if part != 'shape' and r.random() < 0.2:
            continue
        k = kind if part == 'shape' else r.choice(KINDS)
        if scope in ('static', 'staticproc', 'shared') and k == 'dynarray':
            k = 'array1'
        decls.append(L.shape(k))
    if r.random() < 0.5:
        decls.append(L.shape(r.choice(['scalar', 'array1', 'record'])))
    locs = []
    for d in decls:
        locs += L.locations(d)
    if len(locs) > 60:
        locs = locs[:60]
    model = {l: default(t) for l, t in locs}
    ltype = dict(locs)
    ops = []        # program lines of the phase block
    exp = []        # expected typed values in print order
    k = [0]

    def W(l):
        k[0] += 1
        v = sentinel(ltype[l], k[0])
        model[l] = v
        ops.append(f'{l} = {lit(ltype[l], v)}')

    def R(l):
        ops.append(f'PRINT {l}')
        exp.append((ltype[l], model[l], l))
    names = [l for l, _ in locs]
    order = r.choice(['rbw', 'forward', 'reverse', 'interleaved'])
    if order == 'rbw':
        # read-before-write next to live data
        live = r.sample(names, max(1, len(names) // 2))
        for l in live:
            W(l)
        for l in names:
            R(l)
        for l in names:
            if l not in live:
                W(l)
        for l in r.sample(names, len(names)):
            R(l)
    elif order == 'forward':
        for l in names:
            W(l)
        for l in names:
            R(l)
    elif order == 'reverse':
        for l in reversed(names):
            W(l)
        for l in names:
            R(l)
    else:
        for i, l in enumerate(names):
            W(l)
            for j in (i - 1, i + 1):
                if 0 <= j < len(names):
                    R(names[j])
        for l in names:
            R(l)
    st = {'byref_writes': 0, 'recursive_activations': 0, 'record_params': 0}
    # by-reference writes through call depth 1-4 and expression arguments (only for scalar-typed locations)
    procs = []
    for t in TYPES:
        tn = {'%': 'i', '&': 'l', '!': 's', '#': 'd', '$': 't'}[t]
        procs += [f'SUB zset{tn} (p{t}, v{t})', f'p{t} = v{t}', 'END SUB']
        for depth in (2, 3, 4):
            nxt = f'zset{tn}' if depth == 2 else f'zfw{depth - 1}{tn}'
            procs += [f'SUB zfw{depth}{tn} (p{t}, v{t})', f'DIM zpad{depth} AS LONG', f'zpad{depth} = {depth}',
                      f'{nxt} p{t}, v{t}', 'END SUB']
    tnm = {'%': 'i', '&': 'l', '!': 's', '#': 'd', '$': 't'}
    for l in r.sample(names, min(len(names), 5)):
        t = ltype[l]
        k[0] += 1
        v = sentinel(t, k[0])
        depth = r.choice([1, 2, 3, 4])
        sub = f'zset{tnm[t]}' if depth == 1 else f'zfw{depth}{tnm[t]}'
        if r.random() < 0.4:
            # expression arguments alias nothing: (x), x + 0, x * 1, "" + s$
            if t == '$':
                form = r.choice([f'({l})', f'{l} + ""', f'"" + {l}'])
            else:
                z = {'%': '0', '&': '0&', '!': '0!', '#': '0#'}[t]
                o1 = {'%': '1', '&': '1&', '!': '1!', '#': '1#'}[t]
                form = r.choice([f'({l})', f'{l} + {z}', f'{l} * {o1}', f'{z} + {l}', f'{l} - {z}', f'+{l}', f'-(-{l})', f'+({l})'])
            ops.append(f'{sub} {form}, {lit(t, v)}')
        else:
            ops.append(f'{sub} {l}, {lit(t, v)}')
            model[l] = v
            st['byref_writes'] += 1
        for l2 in names:
            R(l2)
    # records passed by reference: the callee writes and reads several fields of its parameter
    recbases = []
    for d in decls:
        if isinstance(d['type'], tuple):
            if d['dims'] is None:
                recbases.append((d['name'], d['type']))
            else:
                idx = ', '.join(str(r.randint(lb, ub)) for lb, ub in d['dims'])
                recbases.append((f"{d['name']}({idx})", d['type']))
    for bi, (base, t) in enumerate(r.sample(recbases, min(2, len(recbases)))):
        fl = L.fields('zp', t)
        if not all((base + path[2:]) in model for path, _ in fl):
            continue
        sub = f'zrw{bi}'
        body_ = []
        for path, ft in fl:
            k[0] += 1
            v = sentinel(ft, k[0])
            body_.append(f'{path} = {lit(ft, v)}')
            model[base + path[2:]] = v
        procs += [f'SUB {sub} (zp AS {t[1]})'] + body_ + [f'PRINT {path}' for path, _ in fl] + ['END SUB']
        ops.append(f'{sub} {base}')
        for path, ft in fl:
            exp.append((ft, model[base + path[2:]], f'{base}{path[2:]} (inside {sub})'))
        st['byref_writes'] += len(fl)
        st['record_params'] = st.get('record_params', 0) + 1
        for l2 in names:
            R(l2)
    # whole arrays passed by reference (static, dynamic, arrays of records), handed on through 1-3 procedures: the last
    # callee writes one element through the parameter and reads all of them
    arrdecls = [d for d in decls if d['dims'] is not None]
    for ai, d in enumerate(r.sample(arrdecls, min(2, len(arrdecls)))):
        alocs = [(l, t_) for l, t_ in L.locations(d) if l in model]
        if not alocs:
            continue
        tname = d['type'][1] if isinstance(d['type'], tuple) else TNAME[d['type']]
        depth = r.choice([1, 2, 3])
        pn = 'zpa'

        def via(l_, _n=d['name']):
            assert l_.startswith(_n)
            return pn + l_[len(_n):]
        tgt, tt = r.choice(alocs)
        k[0] += 1
        v = sentinel(tt, k[0])
        model[tgt] = v
        body_ = [f'{via(tgt)} = {lit(tt, v)}'] + [f'PRINT {via(l_)}' for l_, _ in alocs]
        procs += [f'SUB zaw{ai} ({pn}() AS {tname})'] + body_ + ['END SUB']
        for dd in range(2, depth + 1):
            nxt = f'zaw{ai}' if dd == 2 else f'zaf{ai}x{dd - 1}'
            procs += [f'SUB zaf{ai}x{dd} ({pn}() AS {tname})', f'DIM zpad{dd} AS LONG', f'zpad{dd} = {dd}', f'{nxt} {pn}()', 'END SUB']
        entry = f'zaw{ai}' if depth == 1 else f'zaf{ai}x{depth}'
        ops.append(f"{entry} {d['name']}()")
        for l_, t_ in alocs:
            exp.append((t_, model[l_], f'{l_} (inside zaw{ai}, depth {depth})'))
        st['byref_writes'] += 1
        st['array_params'] = st.get('array_params', 0) + 1
        for l2 in names:
            R(l2)
    body_decl_kw = {'main': 'DIM', 'shared': 'DIM SHARED', 'proc': 'DIM', 'static': 'STATIC', 'staticproc': 'DIM'}[scope]
    decl_lines = [L.decl_text(d, body_decl_kw) for d in decls]
    lines = L.type_defs() + ['DIM SHARED zdynz%', 'DIM SHARED zcalls%']
    exp_final = list(exp)
    if scope == 'main':
        lines += decl_lines + ops
    elif scope == 'shared':
        # declared SHARED at module level; first half of the ops in main, the rest inside a SUB
        lines += decl_lines
        half = len(ops) // 2
        lines += ops[:half] + ['zpart2']
        procs += ['SUB zpart2'] + ops[half:] + ['END SUB']
    else:
        # proc / static / staticproc: ops inside a SUB that is called twice
        head = 'SUB zbody' + (' STATIC' if scope == 'staticproc' else '')
        second = []
        exp2 = []
        persistent = scope in ('static', 'staticproc')
        m2 = dict(model) if persistent else {l: default(t) for l, t in locs}
        # second activation: read everything first (fresh locals or persistent statics), then write again
        for l in names:
            second.append(f'PRINT {l}')
            exp2.append((ltype[l], m2[l], l))
        if any(d['dyn'] for d in decls) and persistent:
            pass
        procs += [head] + decl_lines + ['zcalls% = zcalls% + 1', 'IF zcalls% = 1 THEN'] + ops + ['ELSE'] + second + ['END IF', 'END SUB']
        lines += ['zbody', 'zbody']
        exp_final = exp + exp2
    # recursion: per-activation locals
    rdepth = r.choice([2, 3])
    rt_ = r.choice(TYPES)
    procs += ['SUB zrec (n%)', f'DIM zloc AS {TNAME[rt_]}', 'DIM zla(1 TO 2) AS INTEGER',
              'PRINT zloc', 'PRINT zla(1)',
              f'zloc = ' + ({'%': 'n% * 11', '&': 'n% * 70001&', '!': 'n% + 0.5', '#': 'n% + 0.25#', '$': 'STR$(n%)'}[rt_]),
              'zla(1) = n% * 3: zla(2) = n% * 5', 'IF n% > 1 THEN zrec n% - 1', 'PRINT zloc', 'PRINT zla(1); zla(2)', 'END SUB']
    lines.append(f'zrec {rdepth}')
    rec_exp = []
    for n in range(rdepth, 0, -1):
        rec_exp.append((rt_, default(rt_), 'zloc(fresh)'))
        rec_exp.append(('%', 0, 'zla(1)(fresh)'))
    for n in range(1, rdepth + 1):
        v = {'%': n * 11, '&': n * 70001, '!': n + 0.5, '#': n + 0.25, '$': (' ' + str(n))}[rt_]
        rec_exp.append((rt_, v, f'zloc@{n}'))
        rec_exp.append(('%', n * 3, f'zla(1)@{n}'))
        rec_exp.append(('%', n * 5, f'zla(2)@{n}'))
    st['recursive_activations'] = rdepth
    text = '\n'.join(lines + ['END'] + procs) + '\n'
    return text, exp_final, rec_exp, len(locs), st, order


# names that differ only in their type suffix are different variables, in every scope (hand-computed expectations)
SUFFIX_PROGRAMS = [
    ('main', 'n% = 1: n& = 200000: n! = 1.5: n# = 2.25: n$ = "s"\nPRINT n%; n&; n!; n#; n$\nn& = 7: n$ = n$ + "t"\nPRINT n%; n&; n!; n#; n$\n'
     'PRINT m%; m&; m$; LEN(m$)\nm& = 9\nPRINT m%; m&; m!\n', [1, 200000, 1.5, 2.25, 's', 1, 7, 1.5, 2.25, 'st', 0, 0, '', 0, 0, 9, 0.0]),
    ('static-statement', 'zs\nzs\nEND\nSUB zs\nSTATIC c%, c$, c&\nPRINT c%; c$; c&\nc% = c% + 1: c$ = c$ + "x": c& = c& + 100000\nPRINT c%; c$; c&\nEND SUB\n',
     [0, '', 0, 1, 'x', 100000, 1, 'x', 100000, 2, 'xx', 200000]),
    ('static-procedure', 'zs\nzs\nEND\nSUB zs STATIC\nPRINT c%; c$; c#\nc% = c% + 1: c$ = c$ + "y": c# = c# + 0.5\nPRINT c%; c$; c#\nEND SUB\n',
     [0, '', 0.0, 1, 'y', 0.5, 1, 'y', 0.5, 2, 'yy', 1.0]),
    ('shared', 'DIM SHARED g%, g$, g#\ng% = 3: g$ = "m": g# = 0.25\nzs\nPRINT g%; g$; g#\nEND\nSUB zs\nPRINT g%; g$; g#\ng$ = g$ + "s": g# = g# * 2\nEND SUB\n',
     [3, 'm', 0.25, 3, 'ms', 0.5]),
    ('parameters-and-locals', 'x% = 5: x$ = "c"\nzp x%, x$\nPRINT x%; x$\nEND\nSUB zp (a%, a$)\nl% = a% + 1: l$ = a$ + "l": l& = 70000\nPRINT a%; a$; l%; l$; l&\na% = a% * 2: a$ = a$ + "!"\nEND SUB\n',
     [5, 'c', 6, 'cl', 70000, 10, 'c!']),
    ('arrays', 'DIM a%(2), a$(2), a#(1 TO 2)\na%(1) = 5: a$(1) = "t": a#(1) = 0.5: a%(2) = 6\nPRINT a%(1); a$(1); a#(1); a%(2); a$(2); a#(2); a%(0)\n',
     [5, 't', 0.5, 6, '', 0.0, 0]),
    ('function-locals', 'PRINT zf%(2); zf%(3)\nEND\nFUNCTION zf% (k%)\nSTATIC t%, t&\nt% = t% + k%: t& = t& + 1000 * k%\nu% = t%: u& = t&\nzf% = u% + u& \\ 1000\nEND FUNCTION\n',
     [4, 10]),
    # (needs -g: RESUME NEXT) a module-level handler entered from two calls deep assigns the main program's variables and no one else's
    ('g:handler-two-calls-deep', 'ON ERROR GOTO zh\nmv& = 1001: mc% = 1\nouter\nPRINT mv&; mc%\nEND\nzh: mv& = mv& + 1: mc% = mc% + 1\nRESUME NEXT\n'
     'SUB outer\noa& = 111: ob& = 222: os$ = "outer"\ninner\nPRINT oa&; ob&; os$\nEND SUB\nSUB inner\nia& = 5: x% = 1 \\ zz%\nPRINT ia&\nEND SUB\n',
     [5, 111, 222, 'outer', 1002, 2]),
    ('g:handler-in-recursion', 'ON ERROR GOTO zh\nmv& = 7\nrec 3\nPRINT mv&\nEND\nzh: mv& = mv& * 10\nRESUME NEXT\n'
     'SUB rec (n%)\nl& = n% * 100\nIF n% > 1 THEN rec n% - 1 ELSE x% = 1 \\ zz%\nPRINT l&\nEND SUB\n', [100, 200, 300, 70]),
]


def run_suffix(case):
    st = {'layouts': 0, 'locations': 0, 'reads_compared': 0, 'byref_writes': 0, 'record_params': 0, 'array_params': 0,
          'recursive_activations': 0, 'read_monitor_evaluations': 0, 'cell_writes_monitored': 0, 'suffix_programs': 0}
    viol = []
    shapes = []
    for name, text, exp in SUFFIX_PROGRAMS:
        for cfg in rt.CONFIGS6:
            if name.startswith('g:') and not cfg[1]:
                continue
            c = rt.compile_src(text, cfg[0], cfg[1])
            cn = rt.cfg_name(cfg)
            if c.status != 'ok':
                viol.append(V(f'C04:program-rejected:{c.sig or c.err_code}', f'{cn} suffix program {name}: {c.brief()} {c.msg}', text=text))
                break
            r = rt.run_module(rt.load_module(c.modbytes), {}, max_ticks=20000)
            got = [it[2] for e in r.history if e[0] == 'print' for it in (e[1] or []) if isinstance(it, list) and it[0] == 'v']
            st['layouts'] += 1
            st['suffix_programs'] += 1
            st['locations'] += len(exp)
            st['reads_compared'] += len(got)
            shapes.append(f'suffix|{name}|{cn}')
            if got != exp or r.outcome != ['halt']:
                viol.append(V(f'C04:directed:{name}', f'{cn}: directed storage program ({name}): read {got}, '
                              f'the source says {exp}; run ended {r.outcome}', text=text))
    return {'viol': viol, 'stats': st, 'shape': shapes, 'nontrivial': True, 'sample': {'source': SUFFIX_PROGRAMS[1][1]}}


def gen_cases(tier, seed):
    cs = [{'kind': 'suffix', 'seed': seed, 'scope': '-', 'cfg': [0, False]}]
    reps = 1 if tier == 'quick' else 12
    i = 0
    for rep in range(reps):
        for kind in KINDS:
            for scope in SCOPES:
                for cfgk in range(5):
                    cs.append({'seed': seed * 100003 + i, 'kind': kind, 'scope': scope, 'cfg': list(rt.CONFIGS6[(i + cfgk) % 6])})
                    i += 1
    return cs


def run_case(case):
    if case['kind'] == 'suffix':
        return run_suffix(case)
    text, exp, rec_exp, nloc, st0, order = build(case['seed'], case['kind'], case['scope'])
    st = {'layouts': 1, 'locations': nloc, 'reads_compared': 0, 'byref_writes': st0['byref_writes'],
          'record_params': st0.get('record_params', 0), 'array_params': st0.get('array_params', 0),
          'recursive_activations': st0['recursive_activations'], 'read_monitor_evaluations': 0, 'cell_writes_monitored': 0}
    viol = []
    cfg = tuple(case['cfg'])
    c = rt.compile_src(text, cfg[0], cfg[1])
    key = f"{case['kind']}|{case['scope']}|{order}"
    cn = rt.cfg_name(cfg)
    if c.status != 'ok':
        return {'viol': [V(f"C04:layout-rejected:{c.sig or c.err_code}", f"{cn} {key}: {c.brief()} {c.msg} (line {rt.line_of(text, c.loc)})",
                           text=text)], 'stats': st, 'shape': None, 'nontrivial': False}
    mod = rt.load_module(c.modbytes)
    holder = {}

    def factory(cpu):
        holder['m'] = [mon.ReadsWriteNothing(), mon.CellMonomorphism(), mon.SegmentBounds()]
        return holder['m']
    run = rt.run_module(mod, {}, max_ticks=200000, cpu_class=mon.with_monitors(factory))
    st['read_monitor_evaluations'] = holder['m'][0].count
    st['cell_writes_monitored'] = holder['m'][1].count
    for m in holder['m']:
        for sig, msg in m.viol:
            viol.append(V(sig.replace('C03:', 'C04:'), f'{cn} {key}: {msg}', text=text))
    prints = [e[1] for e in run.history if e[0] == 'print']
    flat = []
    for p in prints:
        for it in p:
            if isinstance(it, list) and it[0] == 'v':
                flat.append(it)
    want = exp + rec_exp
    bad = None
    for i, (t, v, l) in enumerate(want):
        if i >= len(flat):
            bad = ('missing', i, l, (t, v), None)
            break
        st['reads_compared'] += 1
        g = flat[i]
        if g[1] != t or g[2] != v:
            bad = ('value', i, l, (t, v), g[1:])
            break
    if bad:
        kind_, i, l, w, g = bad
        phase = 'recursion' if i >= len(exp) else 'store'
        if kind_ == 'missing':
            viol.append(V(f"C04:run-ended-early:{run.outcome[1] if len(run.outcome) > 1 else run.outcome[0]}",
                          f'{cn} {key}: read #{i} ({l}) never happened: run ended {run.outcome} (line {run.trap_line}) '
                          f'{run.stdout[-120:]!r}', text=text))
        else:
            if g[0] != w[0]:
                what = 'type'
            elif w[1] in (0, 0.0, '') and phase == 'store':
                what = 'unassigned-location-not-default'
            elif g[1] in (0, 0.0, ''):
                what = 'value-lost'
            else:
                what = 'wrong-value'
            viol.append(V(f"C04:{phase}:{what}:{case['scope']}", f'{cn} {key}: read #{i} of {l}: program printed {g}, store model says '
                          f'{list(w)}', text=text))
    elif run.outcome != ['halt']:
        viol.append(V(f'C04:outcome:{run.outcome}', f'{cn} {key}: {run.outcome} {run.stdout[-100:]!r}', text=text))
    sample = {'layout': key, 'config': cn, 'locations': nloc, 'program_head': text[:400]}
    return {'viol': viol, 'stats': st, 'shape': key + '|' + str(case['seed'] % 7), 'nontrivial': st['reads_compared'] >= 4,
            'sample': sample}
