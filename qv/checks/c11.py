"""C11 - the debug map attributes every instruction to its source statement."""
import random
import re

from .. import cases, decode, mon, rt
from .common import shape_of, gen_cases_corpus, V

PROP = 'C11'
LEVEL = 'exploration'
RULE = ('tagged programs (every PRINT and numeric assignment carries a unique LONG literal that survives folding) covering all '
        'statement kinds, nesting <=3, empty blocks, several statements per line, one-line IF/ELSE x O0..O2 with -g: structural '
        'checks of debug records against decoded instruction starts (boundaries, nesting, coverage of routine bodies, routine '
        'records == frame..ret, source extracts) + tag oracle (instruction carrying tag t is attributed to the line where t is '
        'written) + find_stmt at every `io terminal,print` and at trapped_addr of planted failures; repo snippets get the '
        'structural part; non-trivial = module with >=5 statement records; distinct = shape hash x level')
ASSUMPTIONS = ['module prologue (call, halt), the frame instruction of a routine and its final ret may lie outside statement records']
REQUIRED_COUNTERS = ['modules', 'records_checked', 'instructions_attributed', 'tags_checked', 'io_lookups', 'trap_lookups']
TAG_RE = re.compile(r'\b(4[1-9]\d{3})\b')

FAILS = [('zq% = ztz% * {t}& + 1 \\ ztz%', 'DIVISION_BY_ZERO'), ('zq% = ztz% * {t}& + 32767 + (ztz% + 1)', 'INVALID_CELL_VALUE'),
         ('zdarr(ztz% + 9) = ztz% * {t}&', 'INDEX_OUT_OF_RANGE'), ('PRINT {t}&; CHR$(ztz% - 1)', 'INVALID_OPERAND_VALUE'),
         ('zq% = ztz% * {t}& : READ znodata', 'DEVICE_ERROR:OP_FAILED')]


def structural(mod, text, cn, st, viol):
    di = mod.debug_info
    dec = decode.decode(bytes(mod.code))
    S = decode.starts(dec) | {len(mod.code)}
    recs = list(di.stmts)
    lines = text.split('\n')
    nlines = len(lines)
    for r_ in recs:
        st['records_checked'] += 1
        if r_.start_offset not in S or r_.end_offset not in S:
            viol.append(V('C11:record-off-instruction-boundary', f'{cn}: record line {r_.source_start_line} covers '
                          f'{r_.start_offset:#x}-{r_.end_offset:#x}', text=text))
        if r_.end_offset < r_.start_offset:
            viol.append(V('C11:record-negative-range', f'{cn}: line {r_.source_start_line}', text=text))
        ln = r_.source_start_line
        if ln is None or not (1 <= ln <= nlines):
            viol.append(V('C11:record-line-outside-text', f'{cn}: record line {ln}', text=text))
            continue
        a, b = r_.source_start_offset, r_.source_end_offset
        if a is None or b is None or not (0 <= a <= b <= len(text)):
            viol.append(V('C11:record-extract-outside-text', f'{cn}: extract {a}-{b}', text=text))
            continue
        if rt.line_of(text, a) != ln:
            viol.append(V('C11:record-line-vs-offset', f'{cn}: record says line {ln} but its extract starts on line '
                          f'{rt.line_of(text, a)}', text=text))
    # nesting: no partial overlaps between non-empty records
    ne = sorted([r_ for r_ in recs if r_.end_offset > r_.start_offset], key=lambda r_: (r_.start_offset, -r_.end_offset))
    stack = []
    for r_ in ne:
        while stack and stack[-1].end_offset <= r_.start_offset:
            stack.pop()
        if stack and r_.end_offset > stack[-1].end_offset:
            viol.append(V('C11:records-partially-overlap', f'{cn}: lines {stack[-1].source_start_line} '
                          f'[{stack[-1].start_offset:#x},{stack[-1].end_offset:#x}) and {r_.source_start_line} '
                          f'[{r_.start_offset:#x},{r_.end_offset:#x})', text=text))
            break
        stack.append(r_)
    # routine records cover exactly frame..ret
    frames = [d[0] for d in dec if d[1] == 'frame']
    for name, rr in di.routines.items():
        st['routine_records'] = st.get('routine_records', 0) + 1
        if rr.start_offset not in frames:
            viol.append(V('C11:routine-record-start', f'{cn}: routine {name} starts at {rr.start_offset:#x}, not on a frame '
                          'instruction', text=text))
        nxt = min([f for f in frames if f > rr.start_offset] + [len(mod.code)])
        if rr.end_offset != nxt:
            viol.append(V('C11:routine-record-end', f'{cn}: routine {name} record ends at {rr.end_offset:#x}, its code ends at '
                          f'{nxt:#x}', text=text))
    # coverage + unique innermost attribution of body instructions
    class FakeCpu:
        def __init__(self, m):
            self.module = m

        def get_instruction_at(self, addr):
            from qvm.cpu import QvmCpu
            return QvmCpu.get_instruction_at(self, addr)

        def _trap(self, *a, **k):
            pass
    fake = FakeCpu(mod)
    main_ret_candidates = set()
    for i, d in enumerate(dec):
        if d[1] == 'ret' and (i + 1 == len(dec) or dec[i + 1][1] == 'frame'):
            main_ret_candidates.add(d[0])
    tagline = {}
    for li, ltxt in enumerate(lines):
        for m_ in TAG_RE.finditer(ltxt):
            tagline[int(m_.group(1))] = li + 1
    for k, (addr, op, ops, size) in enumerate(dec):
        if k < 2 or op == 'frame' or addr in main_ret_candidates:
            continue
        if op == 'halt' and k == 1:
            continue
        inner = [r_ for r_ in recs if r_.start_offset <= addr < r_.end_offset]
        st['instructions_attributed'] += 1
        if not inner:
            viol.append(V(f'C11:instruction-not-covered:{op}', f'{cn}: {op} at {addr:#x} belongs to no statement record',
                          text=text))
            continue
        mn = min(r_.end_offset - r_.start_offset for r_ in inner)
        innermost = [r_ for r_ in inner if r_.end_offset - r_.start_offset == mn]
        if len({r_.source_start_line for r_ in innermost}) > 1:
            viol.append(V('C11:ambiguous-innermost', f'{cn}: {op} at {addr:#x} has innermost records on lines '
                          f'{sorted({r_.source_start_line for r_ in innermost})}', text=text))
        try:
            fs = di.find_stmt(addr, fake)
        except Exception as e:  # noqa: BLE001
            viol.append(V(f'C11:find_stmt-crash:{rt.crash_sig(e)}', f'{cn}: find_stmt({addr:#x}): {e}', text=text))
            continue
        if op == 'push&' and ops and ops[0][1] in tagline:
            st['tags_checked'] += 1
            want = tagline[ops[0][1]]
            got = fs.source_start_line if fs is not None else None
            if got != want:
                viol.append(V('C11:tag-attributed-to-wrong-line', f'{cn}: push& {ops[0][1]} at {addr:#x} is attributed to line '
                              f'{got}, the tag is written on line {want}', text=text))
    return dec, tagline


def gen_cases(tier, seed):
    n = 60 if tier == 'quick' else 900
    cs = []
    for i, b in enumerate(gen_cases_corpus(n, seed, opts={'max_stmts': 7, 'max_depth': 3, 'tags': True}, with_repo=False)):
        cs.append({'kind': 'tagged', 'base': b, 'k': i})
    for i, sn in enumerate(cases.snippets()):
        if sn['expect'] in ('success', 'trap') and (tier == 'thorough' or i % 2 == 0):
            cs.append({'kind': 'struct', 'base': {'src': 'repo', 'idx': i}, 'k': i})
    for i, t in enumerate(SHAPES):
        cs.append({'kind': 'tagged', 'base': {'src': 'text', 'text': t, 'seed': i}, 'k': i, 'all': True})
    from .common import shape_cases
    for i, b_ in enumerate(shape_cases(40 if tier == 'quick' else None, seed)):
        cs.append({'kind': 'struct', 'base': b_, 'k': i})
    nf = 40 if tier == 'quick' else 400
    for i in range(nf):
        cs.append({'kind': 'trapline', 'seed': seed * 7 + i})
    return cs


SHAPES = [
    # characters that str.splitlines() treats as line ends but the language does not (lines are separated by \\n only)
    "zs$ = \"a\x0cb\x0bc\"\nPRINT 41001&\n' c\x1c\x1d \x85 \u2028\nPRINT 41002&\nDATA a\x1eb\nPRINT 41003&: REM \x0c\nPRINT 41004&\nzq% = 41005& \\ ztz%\n",
    "PRINT \"\x0c\"; 41001&\nIF ztz% = 0 THEN PRINT 41002&: zs$ = \"\x1c\r\": PRINT 41003&\nPRINT 41004&\n",
    "IF ztz% THEN\nELSE\nEND IF\nPRINT 41001&\n",
    "PRINT 41001&: PRINT 41002&: zq% = ztz% * 41003&\nPRINT 41004&\n",
    "IF ztz% = 0 THEN PRINT 41001& ELSE PRINT 41002&\nPRINT 41003&\n",
    "FOR zi% = 1 TO 2\nNEXT\nWHILE ztz%\nWEND\nDO\nLOOP UNTIL 1\nPRINT 41001&\n",
    "SELECT CASE ztz%\nCASE 1\nCASE 0\nPRINT 41001&\nCASE ELSE\nEND SELECT\nPRINT 41002&\n",
    "CONST zc = 5\nDIM zx AS INTEGER\nPRINT 41001&\nDIM zarr(3)\nPRINT 41002&\n",
    "zs\nPRINT 41001&\nSUB zs\nEND SUB\n",
    "zs\nPRINT 41001&\nSUB zs\nPRINT 41002&: PRINT 41003&\nIF ztz% = 0 THEN PRINT 41004&\nEND SUB\n",
    "GOSUB zl\nPRINT 41001&\nEND\nzl: PRINT 41002&\nRETURN\n",
    "zl1:\nzl2: PRINT 41001&\n10 PRINT 41002&\n20\n30 PRINT 41003&\n",
    "PRINT 41001&\n\n' comment\nREM x\nPRINT 41002& ' trailing\n",
    "FOR zi% = 1 TO 2: PRINT 41001&: NEXT: PRINT 41002&\n",
    "IF ztz% = 0 THEN\nIF ztz% = 0 THEN\nPRINT 41001&\nEND IF\nELSEIF ztz% = 1 THEN\nPRINT 41002&\nELSE\nPRINT 41003&\nEND IF\n",
]


def run_case(case):
    st = {'modules': 0, 'records_checked': 0, 'instructions_attributed': 0, 'tags_checked': 0, 'io_lookups': 0,
          'trap_lookups': 0}
    viol = []
    nontrivial = False
    sample = None
    if case['kind'] == 'trapline':
        r = random.Random(case['seed'])
        lines = ['DIM zdarr(3)']
        n = r.randint(2, 6)
        failpos = r.randint(0, n - 1)
        tag = 41000
        depth_open = []
        fail_line = None
        expect = None
        for i in range(n):
            tag += 1
            if r.random() < 0.3:
                lines.append(r.choice(['FOR zi% = 1 TO 1', 'IF ztz% = 0 THEN', 'DO', 'SELECT CASE ztz%\nCASE 0']))
                depth_open.append({'F': 'NEXT', 'I': 'END IF', 'D': 'LOOP UNTIL 1', 'S': 'END SELECT'}[lines[-1][0]])
            if i == failpos:
                f, expect = r.choice(FAILS)
                pre = r.choice(['', '', f'PRINT {tag + 50}&: '])
                lines.append(pre + f.format(t=tag))
                fail_line = sum(x.count('\n') + 1 for x in lines)
            else:
                lines.append(f'PRINT {tag}&')
            if depth_open and r.random() < 0.5:
                lines.append(depth_open.pop())
        while depth_open:
            lines.append(depth_open.pop())
        in_sub = r.random() < 0.3
        if in_sub:
            body = lines
            off = 3
            text = 'zs\nEND\nSUB zs\n' + '\n'.join(body) + '\nEND SUB\n'
            fail_line += off
        else:
            text = '\n'.join(lines) + '\n'
        for O in (0, 1, 2):
            c = rt.compile_src(text, O, True)
            if c.status != 'ok':
                viol.append(V(f'C11:trapline-rejected:{c.sig or c.err_code}', f'{c.brief()} {c.msg}', text=text))
                break
            mod = rt.load_module(c.modbytes)
            run = rt.run_module(mod, {}, max_ticks=5000)
            st['modules'] += 1
            st['trap_lookups'] += 1
            nontrivial = True
            if run.outcome[0] != 'trap':
                viol.append(V('C11:planted-failure-did-not-trap', f'O{O}g: {run.outcome}', text=text))
            elif run.trap_line != fail_line:
                viol.append(V('C11:trap-attributed-to-wrong-line', f'O{O}g: {run.outcome[1]} raised by line {fail_line} is '
                              f'reported against line {run.trap_line}', text=text))
        return {'viol': viol, 'stats': st, 'shape': f'trapline|{shape_of(text)}', 'nontrivial': nontrivial,
                'sample': {'program': text[:300], 'failing_line': fail_line}}
    text, script, meta = cases.source_of(case['base'])
    levels = (0, 1, 2) if (case.get('all') or case['k'] % 2 == 0) else (case['k'] % 3,)
    shapes = []
    for O in levels:
        c = rt.compile_src(text, O, True)
        if c.status != 'ok':
            continue
        mod = rt.load_module(c.modbytes)
        st['modules'] += 1
        cn = f'O{O}g'
        try:
            dec, tagline = structural(mod, text, cn, st, viol)
        except ValueError as e:
            viol.append(V('C11:undecodable', str(e), text=text))
            continue
        if len(mod.debug_info.stmts) >= 5:
            nontrivial = True
        shapes.append(f'{shape_of(text)}|O{O}')
        if case['kind'] != 'tagged':
            continue
        # dynamic: find_stmt at every io print; tag of the first printed item names the statement
        holder = {}

        class IoLookup(mon.Monitor):
            name = 'io-lookup'

            def before(self, cpu, addr, op, operands):
                if op == 'io' and operands and operands[0][1] == 2 and operands[1][1] == 2:
                    items = rt.decode_print_args(cpu)
                    if items and isinstance(items[0], list) and items[0][0] == 'v' and items[0][1] == '&' \
                            and items[0][2] in tagline:
                        self.count += 1
                        try:
                            fs = cpu.module.debug_info.find_stmt(addr, cpu)
                        except Exception as e:  # noqa: BLE001
                            self.report(f'C11:find_stmt-crash:{rt.crash_sig(e)}', str(e))
                            return
                        got = fs.source_start_line if fs is not None else None
                        if got != tagline[items[0][2]]:
                            self.report('C11:io-attributed-to-wrong-line', f'PRINT of tag {items[0][2]} (line '
                                        f'{tagline[items[0][2]]}) is attributed to line {got}')

        def factory(cpu):
            holder['m'] = IoLookup()
            return [holder['m']]
        run = rt.run_module(mod, script, max_ticks=20000, cpu_class=mon.with_monitors(factory))
        st['io_lookups'] += holder['m'].count
        for sig, msg in holder['m'].viol:
            viol.append(V(sig, f'{cn}: {msg}', text=text))
        if run.outcome[0] == 'trap' and run.trap_line is not None:
            st['trap_lookups'] += 1
        if sample is None and nontrivial:
            sample = {'program': text[:400], 'level': O, 'records': len(mod.debug_info.stmts), 'tags': len(tagline)}
    return {'viol': viol, 'stats': st, 'shape': shapes, 'nontrivial': nontrivial, 'sample': sample}
