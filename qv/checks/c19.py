"""C19 - PRINT USING fields keep their width, rounding and overflow mark."""
import itertools
import random
import struct
from decimal import Decimal, ROUND_HALF_UP, ROUND_HALF_EVEN

from .. import rt
from .common import V

PROP = 'C19'
LEVEL = 'exploration'
RULE = ('format strings over {#, ., comma, +, -, &, !, _, x, blank}: all strings of length <=4 (quick) / <=5 (thorough) plus '
        'sampled longer ones, kept when they contain >=1 field under the reference grammar and are unambiguous (see '
        'assumptions); each with exactly one value per field from the boundary set {0, +-0.5*10^-d, +-(10^w-1), +-10^w, '
        '9.995-type carries, +-1234567.891, tiny} as INTEGER/LONG/SINGLE/DOUBLE, strings {"a","hello"} for & and !; statement '
        'with and without trailing separator; oracle = independent reference formatter on Decimal(value), exact ties rounded '
        'away from zero, accepting both treatments of a leading zero that does not fit; distinct = (format, value tuple)')
ASSUMPTIONS = ['"rounded" is read as BASIC rounds when printing: to nearest, an exact tie (the binary value lies exactly half way) '
               'away from zero - .5 in "##" is 1, 2.5 is 3, .125 in "#.##" is 0.13',
               'ambiguous formats are not judged: a "-" or "+" directly before a field that is not a trailing sign, a comma not '
               'followed by a digit position or the point, a trailing "_", "!" with an empty string, format reuse',
               'a field is: [+] digit positions (# and commas) [. #...] [trailing + or - when there is no leading +]']
REQUIRED_COUNTERS = ['formats_checked', 'numeric_fields_checked', 'string_fields_checked', 'overflow_marks_expected']
ALPHA = ['#', '.', ',', '+', '-', '&', '!', '_', 'x', ' ']


def rsingle(x):
    return struct.unpack('>f', struct.pack('>f', x))[0]


def parse_format(fmt):
    """-> list of parts ('lit', text) | ('str', '&'|'!') | ('num', spec dict) or None when ambiguous."""
    parts = []
    i = 0
    n = len(fmt)
    lit = ''

    def flush():
        nonlocal lit
        if lit:
            parts.append(('lit', lit))
            lit = ''
    while i < n:
        c = fmt[i]
        if c == '_':
            if i + 1 >= n:
                return None
            lit += fmt[i + 1]
            i += 2
            continue
        if c in '&!':
            flush()
            parts.append(('str', c))
            i += 1
            continue
        start_num = False
        if c == '#':
            start_num = True
        elif c == '.' and i + 1 < n and fmt[i + 1] == '#':
            start_num = True
        elif c == '+' and i + 1 < n and (fmt[i + 1] == '#' or (fmt[i + 1] == '.' and i + 2 < n and fmt[i + 2] == '#')):
            start_num = True
        elif c in '+-' and i + 1 < n and fmt[i + 1] in '#.':
            return None            # "-#", "-.#", "+." : literal or sign? not judged
        if not start_num:
            if c in '+-,.':
                # stray punctuation next to nothing: literal in both dialect descriptions
                pass
            lit += c
            i += 1
            continue
        flush()
        j = i
        lead_plus = False
        if fmt[j] == '+':
            lead_plus = True
            j += 1
        ipos = 0
        comma = False
        while j < n and fmt[j] in '#,':
            if fmt[j] == ',':
                comma = True
                # a comma must be followed (inside the field) by a digit position or the point
                k = j + 1
                while k < n and fmt[k] == ',':
                    k += 1
                if not (k < n and fmt[k] in '#.'):
                    return None
                if ipos == 0:
                    return None
            ipos += 1
            j += 1
        dec = None
        if j < n and fmt[j] == '.':
            if ipos == 0 and not (j + 1 < n and fmt[j + 1] == '#'):
                return None
            dec = 0
            j += 1
            while j < n and fmt[j] == '#':
                dec += 1
                j += 1
            if j < n and fmt[j] == ',':
                return None        # comma after the decimals: literal or not? not judged
        trail = None
        if not lead_plus and j < n and fmt[j] in '+-':
            trail = fmt[j]
            j += 1
        elif lead_plus and j < n and fmt[j] in '+-':
            return None
        width = j - i
        parts.append(('num', {'width': width, 'ipos': ipos, 'dec': dec, 'comma': comma, 'lead_plus': lead_plus,
                              'trail': trail}))
        i = j
        if i < n and fmt[i] in '#.':
            if fmt[i] == '.' and dec is not None:
                # second point starts a new field / literal: dialects differ
                return None
    flush()
    return parts


def fmt_num(spec, value):
    """-> set of acceptable renderings of value (an int or float) in the field."""
    d = Decimal(value)
    neg = d < 0
    a = abs(d)
    dec = spec['dec'] or 0
    q = Decimal(1).scaleb(-dec)
    accepted = set()
    overflow_any = False
    for mode in (ROUND_HALF_UP,):
        outs = set()
        r = a.quantize(q, rounding=mode)
        s = f'{r:f}'
        if '.' in s:
            ip, fp = s.split('.')
        else:
            ip, fp = s, ''
        isneg = neg and r != 0
        # "-0.00": the sign of a value that rounds to zero - accept both
        negs = {isneg} | ({True, False} if neg and r == 0 else set())
        for ng in negs:
            ipv = [ip]
            if ip == '0' and (spec['dec'] is not None):
                ipv.append('')        # leading zero dropped when it does not fit (and accepted when it does)
            for ipx in ipv:
                if spec['comma'] and len(ipx) > 3:
                    g = ''
                    t = ipx
                    while len(t) > 3:
                        g = ',' + t[-3:] + g
                        t = t[:-3]
                    ipx = t + g
                body = ipx + ('.' + fp if spec['dec'] is not None else '')
                if spec['lead_plus']:
                    txt = ('-' if ng else '+') + body
                elif spec['trail'] == '+':
                    txt = body + ('-' if ng else '+')
                elif spec['trail'] == '-':
                    txt = body + ('-' if ng else ' ')
                else:
                    txt = ('-' if ng else '') + body
                w = spec['width']
                if len(txt) <= w:
                    outs.add(' ' * (w - len(txt)) + txt)
                else:
                    outs.add('%' + txt)
        # within one rounding rule: if some rendering fits, the widened ones are not acceptable
        fitting = {o for o in outs if not o.startswith('%')}
        if fitting:
            accepted |= fitting
        else:
            accepted |= outs
            overflow_any = True
    return accepted, overflow_any


def values_for(spec, r):
    w = max(1, spec['ipos'] - (1 if spec['comma'] else 0))
    d = spec['dec'] or 0
    cand = [0, 1, -1, 5, 10 ** w - 1, -(10 ** w - 1), 10 ** w, -(10 ** w), 1234567.891, -1234567.891, 0.5 * 10 ** -d,
            -0.5 * 10 ** -d, 9.995, 99.5, 0.05, -0.05, 1e-7, 123, 1234, -12.5, 2.5, 0.125, 999.9999, 12345678]
    v = r.choice(cand)
    ty = r.choice('%&!#')
    if ty == '%':
        v = int(max(-32768, min(32767, round(v))))
    elif ty == '&':
        v = int(max(-2**31, min(2**31 - 1, round(v))))
    elif ty == '!':
        v = rsingle(float(v))
    else:
        v = float(v)
    return ty, v


def lit_of(ty, v):
    if ty == '$':
        return '"' + v + '"'
    if ty == '%':
        return f'{v}%' if v >= 0 else f'-{-v}%' if v > -32768 else '(-32767% - 1%)'
    if ty == '&':
        return f'{v}&' if v >= 0 else f'-{-v}&' if v > -2**31 else '(-2147483647& - 1&)'
    s = repr(float(v))
    neg = s.startswith('-')
    s = s.lstrip('-')
    if ty == '!':
        s = s.replace('e', 'E') if 'e' in s else s
        if 'E' not in s and '.' not in s:
            s += '!'
    else:
        s = s.replace('e', 'D') if 'e' in s else s + '#'
    return ('-' if neg else '') + s


def gen_cases(tier, seed):
    r = random.Random(seed)
    maxlen = 4 if tier == 'quick' else 5
    fmts = []
    for n in range(1, maxlen + 1):
        for tup in itertools.product(ALPHA, repeat=n):
            fmts.append(''.join(tup))
    extra = 3000 if tier == 'quick' else 40000
    rich = ['#', '#', '#', '.', ',', '+', '-', '&', '!', '_', 'x', ' ', '##', '###', '#.##', '#,###']
    for _ in range(extra):
        fmts.append(''.join(r.choice(rich) for _ in range(r.randint(2, 6))))
    items = []
    st_skipped = 0
    for f in fmts:
        p = parse_format(f)
        if p is None or not any(x[0] != 'lit' for x in p):
            st_skipped += 1
            continue
        nv = 2 if tier == 'quick' else 4
        for k in range(nv):
            vals = []
            for part in p:
                if part[0] == 'num':
                    vals.append(values_for(part[1], r))
                elif part[0] == 'str':
                    vals.append(('$', r.choice(['a', 'hello', 'Zed'])))
            items.append([f, vals, r.choice(['', '', ';', ','])])
    r.shuffle(items)
    B = 60
    cs = [{'items': items[i:i + B], 'k': i // B} for i in range(0, len(items), B)]
    for c_ in cs[3::6]:
        c_['poison'] = True
    if cs:
        cs[0]['skipped_ambiguous_or_fieldless'] = st_skipped
    return cs


def run_case(case):
    st = {'formats_checked': 0, 'numeric_fields_checked': 0, 'string_fields_checked': 0, 'overflow_marks_expected': 0,
          'ambiguous_or_fieldless_formats_skipped': case.get('skipped_ambiguous_or_fieldless', 0)}
    viol = []
    shapes = []
    items = case['items']
    lines = []
    poison = bool(case.get('poison'))
    if poison:
        # every statement is preceded by one with the same format whose last value has the wrong kind for its field (a device
        # error, skipped by the handler): what that statement had already laid out must not show up in the next one
        st['poisoned_predecessors'] = 0
        lines.append('ON ERROR GOTO zh')
        items2 = []
        for f, vals, trail in items:
            if vals:
                bad = list(vals[:-1]) + [('%', 7) if vals[-1][0] == '$' else ('$', 'oops')]
                fq = f.replace('"', '')
                lines.append(f'PRINT USING "{fq}"; ' + '; '.join(lit_of(t, v) for t, v in bad))
                items2.append(None)
                st['poisoned_predecessors'] += 1
            fq = f.replace('"', '')
            lines.append(f'PRINT USING "{fq}"; ' + '; '.join(lit_of(t, v) for t, v in vals) + trail)
            items2.append((f, vals, trail))
        items = items2
        lines0 = lines[1:]
        lines = lines + ['END', 'zh: RESUME NEXT']
    else:
        for f, vals, trail in items:
            fq = f.replace('"', '')
            args = '; '.join(lit_of(t, v) for t, v in vals)
            lines.append(f'PRINT USING "{fq}"; {args}{trail}')
        lines0 = lines
    text = '\n'.join(lines) + '\n'
    cfg = rt.CONFIGS6[case['k'] % 6]
    if poison:
        cfg = (cfg[0], True)
    c = rt.compile_src(text, cfg[0], cfg[1])
    if c.status != 'ok':
        bad = None
        for ln in lines:
            c1 = rt.compile_src(ln + '\n', cfg[0], cfg[1])
            if c1.status != 'ok':
                bad = (ln, c1)
                break
        viol.append(V(f'C19:rejected:{c.status}:{c.sig or c.err_code}', f'{c.brief()} {c.msg}; first bad line: {bad[0] if bad else None!r}',
                      text=bad[0] if bad else text[:500]))
        return {'viol': viol, 'stats': st, 'shape': None, 'nontrivial': False}
    mod = rt.load_module(c.modbytes)
    # run statement by statement: a host exception in one must not hide the others -> run separately on failure
    run = rt.run_module(mod, {}, max_ticks=100000)
    groups = []
    for e in run.history:
        if e[0] == 'print':
            groups.append('')
        elif e[0] == 'out' and groups:
            groups[-1] += e[1]
    crashed_at = None
    if run.outcome[0] != 'halt' and run.outcome[0] != 'end_of_code':
        crashed_at = len(groups) - 1
    for k, it_ in enumerate(items):
        if k >= len(groups):
            break
        if crashed_at is not None and k == crashed_at:
            viol.append(V(f'C19:run:{run.outcome[1] if len(run.outcome) > 1 else run.outcome[0]}',
                          f'{lines0[k]!r}: {run.outcome} {run.stdout[-150:]!r}', text=lines0[k]))
            break
        if it_ is None:
            if groups[k] not in ('',):
                # the failing statement itself: the property says nothing about it
                pass
            continue
        f, vals, trail = it_
        st['formats_checked'] += 1
        shapes.append(f'{f}|{vals}')
        parts = parse_format(f)
        nl = '' if trail else '\r\n'
        got = groups[k]
        body = got[:-2] if (nl and got.endswith('\r\n')) else got
        # match part by part (a set of acceptable renderings per field); the first part that cannot be
        # matched names the mechanism
        frontier = {0}
        vi = 0
        failed = None
        for part in parts:
            if part[0] == 'lit':
                cands, ov, kind = {part[1]}, False, 'literal'
            elif part[0] == 'str':
                sv = vals[vi][1]
                vi += 1
                st['string_fields_checked'] += 1
                cands, ov, kind = {sv if part[1] == '&' else sv[0]}, False, 'str' + part[1]
            else:
                ty, v = vals[vi]
                vi += 1
                st['numeric_fields_checked'] += 1
                sp = part[1]
                cands, ov = fmt_num(sp, v)
                if ov:
                    st['overflow_marks_expected'] += 1
                kind = ('+' if sp['lead_plus'] else '') + 'num' + (',' if sp['comma'] else '') + \
                    ('.' if sp['dec'] is not None else '') + (sp['trail'] or '') + ('/overflow' if ov else '') + \
                    ('/float' if ty in '!#' else '/int')
            nf = set()
            for pos in frontier:
                for cnd in cands:
                    if body.startswith(cnd, pos):
                        nf.add(pos + len(cnd))
            if not nf:
                failed = (kind, sorted(cands)[:3], min(frontier))
                break
            frontier = nf
        if failed is None and len(body) not in frontier:
            failed = ('trailing-text', [], min(frontier))
        if failed is None and (got != body + nl):
            failed = ('newline', [nl], len(body))
        if failed is not None:
            kind, cands, pos = failed
            viol.append(V(f'C19:{kind}' + (':after-failed-statement' if poison else ''),
                          f'{lines0[k]!r} [{rt.cfg_name(cfg)}]: printed {got!r}; at column {pos} the reference '
                          f'expects one of {cands!r}', text=lines0[k]))
    sample = {'statement': lines0[-1], 'printed': groups[-1] if groups else None}
    return {'viol': viol[:80], 'stats': st, 'shape': shapes, 'nontrivial': bool(shapes), 'sample': sample}
