"""C09 - binary module, loader, disassembler and assembly listing agree."""
import contextlib
import io
import random
import struct

from .. import cases, decode, rt
from .common import shape_of, gen_cases_corpus, V

PROP = 'C09'
LEVEL = 'exploration'
RULE = ('each case = one accepted source x configs; checked on the artefacts of one compilation: loader round trip of '
        'literals/DATA/globals/code, independent linear decode vs CPU decoder vs emitted instruction list, disassembly vs '
        'listing (mnemonics, immediates, label addresses, variable slots), jump/call/errhand targets on instruction '
        'starts, slot operands inside frame/global area, frame operands == independent size model; plus cp437 literal '
        'sweep, DATA layouts and size cliffs; non-trivial = accepted program with >=5 instructions; distinct = shape hash')
ASSUMPTIONS = ['the opcode table qvm/instrs.py is the ISA definition and is shared by the independent decoder',
               'a by-reference parameter occupies one frame cell whatever its type (that is what `frame` pops)']
REQUIRED_COUNTERS = ['modules', 'instructions_decoded', 'listing_lines_aligned', 'targets_checked', 'frames_checked']
CASE_TIMEOUT = 600


def model_size(context, t):
    """Independent storage-size model over the repo's Type objects."""
    if t.is_array:
        if t.is_nodim_array:
            return 1
        try:
            static = all(d.lbound.is_const and d.ubound.is_const for d in t.array_dims)
        except Exception:
            static = False
        if not static:
            return 1
        n = 1
        for d in t.array_dims:
            lb = int(round(d.lbound.eval()))
            ub = int(round(d.ubound.eval()))
            n *= (ub - lb + 1)
        return 3 + 2 * len(t.array_dims) + n * model_size(context, t.array_base_type)
    if t.is_user_defined:
        blk = context.user_types[t.user_type_name]
        return sum(model_size(context, ft) for ft in blk.fields.values())
    return 1


def check_module(text, cfg, st, viol, tag=''):
    c = rt.compile_src(text, cfg[0], cfg[1], want_bytes=True, want_listing=True)
    if c.status != 'ok':
        st['not_accepted'] = st.get('not_accepted', 0) + 1
        if c.status == 'crash' and tag.startswith('cliff'):
            viol.append(V(f'C09:cliff-crash:{c.sig}', f'{tag}: {c.exc}: {c.msg}', text=text[:300], cfg=cfg))
        return None
    code = c.code
    cn = rt.cfg_name(cfg)
    try:
        with contextlib.redirect_stdout(io.StringIO()), contextlib.redirect_stderr(io.StringIO()):
            mod = rt.load_module(c.modbytes)
    except BaseException as e:  # noqa: BLE001
        viol.append(V(f'C09:loader-crash:{type(e).__name__}', f'{tag} {cn}: QModule.parse failed: {e}', text=text[:500]))
        return None
    st['modules'] += 1
    # 1. loader round trip
    if list(mod.literals) != list(code._string_literals):
        viol.append(V('C09:literals-differ', f'{tag} {cn}: loaded literals {mod.literals[:5]!r} != emitted '
                      f'{code._string_literals[:5]!r}', text=text[:500]))
    emitted_data = [list(v) for v in code._data.values()]
    if [list(p) for p in mod.data] != emitted_data:
        viol.append(V('C09:data-differ', f'{tag} {cn}: loaded DATA {str(mod.data)[:200]} != emitted {str(emitted_data)[:200]}',
                      text=text[:500]))
    asm_code = code.assembled[0]
    if bytes(mod.code) != bytes(asm_code):
        viol.append(V('C09:code-differ', f'{tag} {cn}: loaded code section differs from assembled code', text=text[:500]))
    ctx = code.compilation
    exp_globals = sum(model_size(ctx, t) for t in code._globals.values())
    if mod.n_global_cells != exp_globals:
        viol.append(V('C09:globals-size', f'{tag} {cn}: n_global_cells {mod.n_global_cells} != size model {exp_globals}',
                      text=text[:500]))
    # 2. decoders
    try:
        dec = decode.decode(bytes(mod.code))
    except ValueError as e:
        viol.append(V('C09:undecodable', f'{tag} {cn}: {e}', text=text[:500]))
        return mod
    st['instructions_decoded'] += len(dec)
    S = decode.starts(dec)
    from qvm.cpu import QvmCpu
    cpu = QvmCpu(mod)
    real = [i for i in code._instrs if not i.final[0].startswith('_')]
    if len(real) != len(dec):
        viol.append(V('C09:instr-count', f'{tag} {cn}: {len(dec)} decoded vs {len(real)} emitted instructions',
                      text=text[:500]))
    for k, (addr, op, ops, size) in enumerate(dec):
        ins, cops, csize = cpu.get_instruction_at(addr)
        if ins is None or ins.op != op or csize != size:
            viol.append(V('C09:cpu-decoder-disagrees', f'{tag} {cn}: at {addr}: linear {op}/{size} vs cpu '
                          f'{getattr(ins, "op", None)}/{csize}', text=text[:500]))
            break
        for (cls, v), cv in zip(ops, cops):
            if cls == 'StringLiteral':
                if v >= len(mod.literals) or mod.literals[v] != cv:
                    viol.append(V('C09:literal-operand', f'{tag} {cn}: at {addr}: literal index {v} decodes to '
                                  f'{cv!r} in the CPU, table has {mod.literals[v] if v < len(mod.literals) else None!r}',
                                  text=text[:500]))
                    break
            elif cls.startswith('Float'):
                if not (v == cv or (v != v and cv != cv)):
                    viol.append(V('C09:operand-value', f'{tag} {cn}: at {addr}: {v} vs {cv}', text=text[:500]))
            elif v != cv:
                viol.append(V('C09:operand-value', f'{tag} {cn}: at {addr} {op}: {v} vs {cv}', text=text[:500]))
        if k < len(real) and real[k].final[0] != op:
            viol.append(V('C09:emitted-mnemonic', f'{tag} {cn}: instruction {k}: decoded {op} vs emitted {real[k].final[0]}',
                          text=text[:500]))
            break
    # 3. disassembly vs listing
    with contextlib.redirect_stdout(io.StringIO()), contextlib.redirect_stderr(io.StringIO()):
        try:
            dis = decode.parse_disasm(mod.disassemble())
        except BaseException as e:  # noqa: BLE001
            viol.append(V(f'C09:disassembler-crash:{type(e).__name__}', f'{tag} {cn}: {e}', text=text[:500]))
            dis = None
    lst = decode.parse_listing(c.listing)
    if dis is not None:
        if len(dis) != len(dec) or any(d[0] != a[0] or d[1] != a[1] for d, a in zip(dis, dec)):
            viol.append(V('C09:disassembly-vs-decode', f'{tag} {cn}: disassembly has {len(dis)} lines, decode {len(dec)} '
                          'instructions, or addresses/mnemonics differ', text=text[:500]))
        else:
            # label -> address of the instruction following it in the listing
            label_addr = {}
            k = 0
            pend = []
            for ent in lst:
                if ent[0] == 'label':
                    pend.append(ent[1])
                else:
                    for l in pend:
                        label_addr[l] = dec[k][0] if k < len(dec) else len(mod.code)
                    pend = []
                    k += 1
            for l in pend:
                label_addr[l] = len(mod.code)
            li = [e for e in lst if e[0] == 'instr']
            if len(li) != len(dec):
                viol.append(V('C09:listing-count', f'{tag} {cn}: listing has {len(li)} instructions, module {len(dec)}',
                              text=text[:500]))
            else:
                routine = '_main'
                slotmap = {}
                goffset = {}
                off_ = 0
                for gname, gtype in code._globals.items():
                    goffset[gname] = off_
                    off_ += model_size(ctx, gtype)
                k = 0
                for ent in lst:
                    if ent[0] == 'label':
                        if ent[1].startswith('_sub_') or ent[1].startswith('_func_'):
                            routine = ent[1]
                        continue
                    _, lop, largs = ent
                    addr, op, ops, size = dec[k]
                    dargs = dis[k][2]
                    k += 1
                    st['listing_lines_aligned'] += 1
                    if lop != op:
                        viol.append(V('C09:listing-mnemonic', f'{tag} {cn}: at {addr}: listing {lop} vs module {op}',
                                      text=text[:500]))
                        break
                    if op in ('jmp', 'jz', 'call') or (op == 'errhand' and ops[0][1] not in (0, 1)):
                        tgt = ops[0][1]
                        if label_addr.get(largs[0]) != tgt:
                            viol.append(V('C09:label-address', f'{tag} {cn}: at {addr} {op} {largs[0]}: operand {tgt:#x} but the '
                                          f'label is at {label_addr.get(largs[0])}', text=text[:500]))
                        if dargs and int(dargs[0], 16) != tgt:
                            viol.append(V('C09:disasm-operand', f'{tag} {cn}: at {addr}: disassembler shows {dargs[0]} for {tgt:#x}',
                                          text=text[:500]))
                    elif op.startswith('push') and ops and op[-1] in '%&!#':
                        try:
                            lv = float(largs[0])
                            if lv != ops[0][1] and not (op[-1] == '!' and struct.unpack('>f', struct.pack('>f', lv))[0] == ops[0][1]):
                                viol.append(V('C09:listing-immediate', f'{tag} {cn}: at {addr}: listing {largs[0]} vs module {ops[0][1]}',
                                              text=text[:500]))
                            if float(dargs[0]) != ops[0][1] and repr(float(dargs[0])) != repr(ops[0][1]):
                                viol.append(V('C09:disasm-immediate', f'{tag} {cn}: at {addr}: disassembler {dargs[0]} vs {ops[0][1]}',
                                              text=text[:500]))
                        except (ValueError, IndexError, OverflowError):
                            viol.append(V('C09:listing-immediate-syntax', f'{tag} {cn}: at {addr}: {largs} / {dargs}', text=text[:500]))
                    elif op == 'push$':
                        lit = mod.literals[ops[0][1]] if ops[0][1] < len(mod.literals) else None
                        if largs[0] != f'"{lit}"':
                            viol.append(V('C09:listing-literal', f'{tag} {cn}: at {addr}: listing {largs[0][:40]!r} vs literal {str(lit)[:40]!r}',
                                          text=text[:500]))
                    elif (op[:5] in ('readl', 'readg', 'store') or op.startswith('pushref') or op.startswith('readidx')
                          or op.startswith('initarr')) and ops:
                        scope = 'g' if (op.startswith(('readg', 'readidxg')) or op in ('storeg', 'pushrefg', 'storeidxg', 'initarrg')) else 'l'
                        if op in ('storeref',):
                            continue
                        idx = ops[0][1]
                        if scope == 'g':
                            # a global operand is written with its short name; inside a routine that owns a STATIC variable
                            # of that name it denotes that variable.  Its slot must be where the .globals order and the size
                            # model put it.
                            rname = routine.replace('_sub_', '', 1).replace('_func_', '', 1)
                            full = f'_static_{rname}_{largs[0]}' if f'_static_{rname}_{largs[0]}' in goffset else largs[0]
                            if full in goffset:
                                st['global_slots_checked'] = st.get('global_slots_checked', 0) + 1
                                if goffset[full] != idx:
                                    viol.append(V('C09:global-slot', f'{tag} {cn}: at {addr}: {op} {largs[0]} in {routine} denotes {full}, '
                                                  f'which the .globals order puts at cell {goffset[full]}; the module says {idx}',
                                                  text=text[:500]))
                            key = ('_globals', full)
                        else:
                            key = (routine, largs[0])
                        if slotmap.setdefault(key, idx) != idx:
                            viol.append(V('C09:slot-not-a-function', f'{tag} {cn}: {key} -> {slotmap[key]} and {idx}', text=text[:500]))
    # 4. targets and slots
    frames = {}
    cur = None
    for addr, op, ops, size in dec:
        if op == 'frame':
            cur = (ops[0][1], ops[1][1])
            frames[addr] = cur
        if op in ('jmp', 'jz', 'call') or (op == 'errhand' and ops[0][1] not in (0, 1)):
            st['targets_checked'] += 1
            if ops[0][1] not in S:
                viol.append(V('C09:target-not-instruction-start', f'{tag} {cn}: at {addr} {op} -> {ops[0][1]:#x}', text=text[:500]))
        if cur is not None and ops and (op.startswith('readl') or op in ('storel', 'pushrefl') or op.startswith('readidxl')
                                        or op == 'storeidxl' or op == 'initarrl'):
            st['slots_checked'] = st.get('slots_checked', 0) + 1
            idx = ops[0][1] + (ops[1][1] if op.startswith('readidx') or op.startswith('storeidx') else 0)
            if idx >= cur[0] + cur[1]:
                viol.append(V('C09:local-slot-outside-frame', f'{tag} {cn}: at {addr} {op} slot {idx} >= frame {cur}', text=text[:500]))
        if ops and (op.startswith('readg') or op in ('storeg', 'pushrefg') or op.startswith('readidxg') or op == 'storeidxg'
                    or op == 'initarrg'):
            st['slots_checked'] = st.get('slots_checked', 0) + 1
            idx = ops[0][1] + (ops[1][1] if op.startswith('readidx') or op.startswith('storeidx') else 0)
            if idx >= mod.n_global_cells:
                viol.append(V('C09:global-slot-outside', f'{tag} {cn}: at {addr} {op} slot {idx} >= {mod.n_global_cells}', text=text[:500]))
    # 5. frame declaration == storage needed
    k = 0
    labels = {}
    for ins in code._instrs:
        f = ins.final
        if f[0] == '_label':
            labels[f[1]] = dec[k][0] if k < len(dec) else None
        elif not f[0].startswith('_'):
            k += 1
    for rname, routine in code._routines.items():
        lab = ('_sub_' + rname) if ('_sub_' + rname) in labels else ('_func_' + rname)
        addr = labels.get(lab)
        if addr is None or addr not in frames:
            continue
        st['frames_checked'] += 1
        p, l = frames[addr]
        exp_p = len(routine.params)
        exp_l = sum(model_size(ctx, t) for t in routine.local_vars.values())
        if p != exp_p:
            viol.append(V('C09:frame-params', f'{tag} {cn}: routine {rname}: frame declares {p} parameter cells, '
                          f'{exp_p} references are passed', text=text[:500]))
        if l != exp_l:
            viol.append(V('C09:frame-locals', f'{tag} {cn}: routine {rname}: frame declares {l} local cells, size model says {exp_l}',
                          text=text[:500]))
    return mod


def cp437_chars():
    out = []
    for b in range(256):
        ch = bytes([b]).decode('cp437')
        if ch in '"\n\r':
            continue
        out.append(ch)
    return out


def gen_cases(tier, seed):
    r = random.Random(seed)
    n = 80 if tier == 'quick' else 1200
    cs = []
    for i, b in enumerate(gen_cases_corpus(n, seed, opts={'max_stmts': 7}, with_repo=True)):
        cs.append({'kind': 'prog', 'base': b, 'k': i})
    from .common import shape_cases
    for i, b_ in enumerate(shape_cases(24 if tier == 'quick' else None, seed)):
        cs.append({'kind': 'prog', 'base': b_, 'k': i})
    chars = cp437_chars()
    for i in range(0, len(chars), 16):
        cs.append({'kind': 'lits', 'chars': chars[i:i + 16]})
    cs.append({'kind': 'lits', 'chars': [';', "'", ':', ' a ', '  ', 'a;b', "it's", ':::', ' ', 'REM', 'a' * 300]})
    for i, t in enumerate(DATA_LAYOUTS):
        cs.append({'kind': 'text', 'text': t, 'tag': f'data{i}'})
    cs.append({'kind': 'cliff', 'what': 'data32767'})
    cs.append({'kind': 'cliff', 'what': 'data32768'})
    cs.append({'kind': 'cliff', 'what': 'lit65535'})
    cs.append({'kind': 'cliff', 'what': 'lit65536'})
    cs.append({'kind': 'cliff', 'what': 'globals70000'})
    cs.append({'kind': 'cliff', 'what': 'locals70000'})
    cs.append({'kind': 'cliff', 'what': 'lits256'})
    if tier == 'thorough':
        cs.append({'kind': 'cliff', 'what': 'lits32769'})
    return cs


DATA_LAYOUTS = [
    "DATA ,\nREAD a$, b$\nPRINT a$; b$\n",
    "DATA , 1,\nREAD a, b, c\n",
    "DATA\nREAD a$\n",
    "DATA \"\", \"a,b\", \" x \"\nREAD a$, b$, c$\n",
    "l1: DATA 1\nl2: DATA 2, 3\nl3:\nDATA 4\nRESTORE l2\nREAD a\nPRINT a\n",
    "DATA 1\nSUB f\nEND SUB\nDATA 2\n",
    "10 DATA a\n20 DATA b\nRESTORE 20\nREAD x$\nPRINT x$\n",
    "DATA \xe9\xe8, caf\xe9\nREAD a$\nPRINT a$\n",
]


def cliff_source(what):
    if what == 'data32767':
        return 'DATA ' + ','.join(['1'] * 32767) + '\nREAD a\nPRINT a\n'
    if what == 'data32768':
        return 'DATA ' + ','.join(['1'] * 32768) + '\nREAD a\nPRINT a\n'
    if what == 'lit65535':
        return 'PRINT LEN("' + 'a' * 65535 + '")\n'
    if what == 'lit65536':
        return 'PRINT LEN("' + 'a' * 65536 + '")\n'
    if what == 'globals70000':
        return 'DIM SHARED a(70000) AS INTEGER\nDIM SHARED b AS INTEGER\nb = 5\na(70000) = 7\nPRINT b; a(70000)\n'
    if what == 'locals70000':
        return 'DIM a(70000) AS INTEGER\nb% = 5\na(70000) = 7\nPRINT b%; a(70000)\n'
    if what == 'lits256':
        return ''.join(f'PRINT "s{i}"\n' for i in range(300))
    if what == 'lits32769':
        lines = []
        for i in range(0, 32770, 100):
            lines.append('PRINT ' + ';'.join(f'"q{j}"' for j in range(i, min(i + 100, 32770))))
        return '\n'.join(lines) + '\n'
    raise ValueError(what)


def run_case(case):
    st = {'modules': 0, 'instructions_decoded': 0, 'listing_lines_aligned': 0, 'targets_checked': 0, 'frames_checked': 0}
    viol = []
    shapes = []
    sample = None
    nontrivial = False
    k = case['kind']
    if k == 'prog':
        text, script, meta = cases.source_of(case['base'])
        cfgs = rt.CONFIGS6 if case['k'] % 5 == 0 else [rt.CONFIGS6[case['k'] % 6], rt.CONFIGS6[(case['k'] + 3) % 6]]
        for cfg in cfgs:
            m = check_module(text, cfg, st, viol)
            if m is not None and len(m.code) > 20:
                nontrivial = True
        shapes.append(shape_of(text))
        if nontrivial and case['base']['src'] == 'gen':
            sample = {'source': text[:300], 'configs': [rt.cfg_name(c) for c in cfgs],
                      'instructions': st['instructions_decoded']}
    elif k == 'lits':
        for ch in case['chars']:
            text = f'PRINT "{ch}"\n'
            for cfg in ((0, False), (2, True)):
                m = check_module(text, cfg, st, viol, tag=f'literal {ch!r}')
                if m is not None:
                    nontrivial = True
                    if ch not in m.literals:
                        viol.append(V('C09:literal-roundtrip', f'literal {ch!r} not recovered: {m.literals!r}'))
                    r = rt.run_module(m, {}, max_ticks=100)
                    outs = [e[1] for e in r.history if e[0] == 'out']
                    if outs != [ch + '\r\n']:
                        viol.append(V('C09:literal-print', f'literal {ch!r} printed as {outs!r}'))
            shapes.append('lit:' + repr(ch)[:20])
        sample = {'cp437_literals': [repr(c) for c in case['chars'][:5]]}
    elif k == 'text':
        for cfg in ((0, False), (1, True), (2, False)):
            m = check_module(case['text'], cfg, st, viol, tag=case['tag'])
            nontrivial = nontrivial or m is not None
        shapes.append(shape_of(case['text']))
    else:
        text = cliff_source(case['what'])
        try:
            with rt.time_limit(150):
                m = check_module(text, (0, False), st, viol, tag='cliff:' + case['what'])
            nontrivial = m is not None
            if m is not None:
                r = rt.run_module(m, {}, max_ticks=5000)
                st['cliff_runs'] = 1
                if r.outcome[0] == 'crash':
                    viol.append(V(f'C09:cliff-run-crash:{r.outcome[1]}', f"{case['what']}: {r.crash_tb[-300:]}"))
        except rt.TimeLimit:
            st['cliff_timeouts'] = 1
        shapes.append('cliff:' + case['what'])
        sample = {'size_cliff': case['what']}
    return {'viol': viol, 'stats': st, 'shape': shapes, 'nontrivial': nontrivial, 'sample': sample}
