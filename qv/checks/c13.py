"""C13 - debugger expression evaluation agrees with the running program."""
import random
import re

from .. import dbgdrv, rt
from ..gen import progs, render
from ..gen.ir import etype
from .common import shape_of, V
from .c07 import state_digest
from .c12 import bp_model

PROP = 'C13'
LEVEL = 'exploration'
RULE = ('programs with parameters (by-ref and by-value), locals, STATIC, SHARED, global and local CONSTs, static/dynamic arrays, '
        'arrays of records, nested records; probe statements `PRINT <e>` in main and at call depth 1-3; the driver stops at '
        'each probe (line breakpoint), asks the debugger `print <e>`, then steps and reads the typed value the program itself '
        'printed for the same <e>; expressions from the typed generator over assigned names in scope (operators only) plus a '
        'totality set with builtin functions, plus a negative set (unknown names, subscripts outside each bound, wrong rank, '
        'field of a non-record, malformed text); full machine-state digest before/after every print; also after the program '
        'finished; non-trivial = probe compared; distinct = (program shape, probe expression)')
ASSUMPTIONS = ['float results are compared with relative tolerance 1e-6 (SINGLE) / 1e-12 (DOUBLE); integers and strings exactly',
               'the oracle is the program itself (differential), no reference semantics is involved']
REQUIRED_COUNTERS = ['probes_compared', 'state_digests_compared', 'negative_probes', 'sessions']
CASE_TIMEOUT = 600


def build(seed):
    r = random.Random(seed)
    g = progs.Gen(seed, progs.Opts(builtins=False, procs=False, rnd=False, pow=False, big_values=False, long_div=True,
                                   int_pow=False, nested_records=True, dynamic_arrays=True))
    g.make_types()
    if len(g.types) < 2:
        g.make_types()
    main = progs.Scope('main', '_main')
    lines_main = []
    # shared
    shared_body = []
    for t in '&!$':
        nm = g.fresh('g')
        shared_body.append(['dim', 'shared', nm, t, None])
        g.shared.scalars.append((nm, t))
    g.declare_array(g.shared, shared_body, scope_kw='shared')
    tn = r.choice(g.types)[0]
    nm = g.fresh('r')
    shared_body.append(['dim', 'shared', nm, ('rec', tn), None])
    g.shared.records.append((nm, tn))
    cn = g.fresh('c') + '%'
    shared_body.append(['const', cn, ('lit', '%', 7)])
    g.shared.consts.append((cn, '%'))
    cs = g.fresh('c') + '$'
    shared_body.append(['const', cs, ('lit', '$', 'konst')])
    g.shared.consts.append((cs, '$'))
    body = []
    g.declare_some(main, body, n_scalars=5)
    for _ in range(2):
        g.declare_array(main, body)
    if g.types:
        nm = g.fresh('r')
        body.append(['dim', 'dim', nm, ('rec', g.types[-1][0]), None])
        main.records.append((nm, g.types[-1][0]))

    uniq = [0]

    def ulit(t):
        # a value that no other location holds, so that a read of the wrong cell cannot go unnoticed
        uniq[0] += 1
        k_ = uniq[0]
        if t == '%':
            return ('lit', '%', 100 + k_)
        if t == '&':
            return ('lit', '&', 100000 + k_)
        if t == '!':
            return ('lit', '!', k_ + 0.25)
        if t == '#':
            return ('lit', '#', k_ + 0.125)
        return ('lit', '$', f's{k_}')

    def assign_all(sc, out, include_shared):
        scopes = [sc] + ([g.shared] if include_shared else [])
        for scope in scopes:
            for n_, t in scope.scalars:
                if n_ in sc.loopvars:
                    continue
                out.append(['let', ('var', n_, t), ulit(t) if r.random() < 0.8 else ('un', '-', ulit(t)) if t != '$' else ulit(t), False])
            for n_, et, dims, dyn in scope.arrays:
                # assign every element (small arrays) so that all reads are of assigned cells
                import itertools
                for idx in itertools.product(*[range(lb, ub + 1) for lb, ub in dims]):
                    ie = [g.int_lit(i) for i in idx]
                    if isinstance(et, tuple):
                        base = ('elem', n_, et, ie)
                        for ft in '%&!#$':
                            for f in g.fields_of(base, et[1], ft):
                                out.append(['let', f, ulit(ft), False])
                    else:
                        out.append(['let', ('elem', n_, et, ie), ulit(et), False])
            for n_, tn_ in scope.records:
                base = ('var', n_, ('rec', tn_))
                for ft in '%&!#$':
                    for f in g.fields_of(base, tn_, ft):
                        out.append(['let', f, ulit(ft), False])
    assign_all(main, body, True)
    probes = []

    def add_probes(sc, out, n, where):
        for _ in range(n):
            t = g.anyt()
            e = g.expr(sc, t, r.choice([0, 1, 2, 2]))
            # indices inside expressions must stay in range: the generator draws ~10% out-of-range on purpose; keep them,
            # the program traps then and the probe is simply not reached
            st = ['print', [['e', e]]]
            out.append(st)
            probes.append((st, e, where))
    add_probes(main, body, 6, 'main')
    # procedure with parameters, locals, static, local const
    sub = progs.Scope('sub', 'zsub')
    sub.scalars += [('zpa%', '%'), ('zpb#', '#'), ('zpc$', '$'), ('zpn%', '%')]
    sbody = [['dim', 'static', 'zst&', '&', None], ['const', 'zlc!', ('lit', '!', 2.5)]]
    sub.scalars.append(('zst&', '&'))
    sub.consts.append(('zlc!', '!'))
    g.declare_some(sub, sbody, n_scalars=3)
    g.declare_array(sub, sbody)
    assign_all(sub, sbody, False)
    sbody.append(['let', ('var', 'zst&', '&'), ('bin', '+', ('var', 'zst&', '&'), ('lit', '&', 1)), False])
    add_probes(sub, sbody, 5, 'sub')
    sbody.append(['if', [(('bin', '>', ('var', 'zpn%', '%'), ('lit', '%', 1)),
                          [['call', 'zsub', [('var', 'zpa%', '%'), ('bin', '+', ('var', 'zpb#', '#'), ('lit', '#', 1.5)),
                                             ('var', 'zpc$', '$'), ('bin', '-', ('var', 'zpn%', '%'), ('lit', '%', 1))], True]])],
                  None])
    add_probes(sub, sbody, 2, 'sub-after-call')
    ints = [v for v in g.lvalues_of(main, '%')]
    strs = [v for v in g.lvalues_of(main, '$')]
    a1 = r.choice(ints) if ints else ('lit', '%', 3)
    a3 = r.choice(strs) if strs else ('lit', '$', 'lit')
    body.append(['call', 'zsub', [a1, ('bin', '*', ('lit', '#', 2.25), ('lit', '#', 2.0)), a3, ('lit', '%', r.choice([1, 2, 3]))], False])
    add_probes(main, body, 2, 'main-after-call')
    prog = {'deftype': None, 'types': g.types, 'main': shared_body + body,
            'procs': [{'kind': 'sub', 'name': 'zsub', 'rtype': None,
                       'params': [('zpa%', '%', 0), ('zpb#', '#', 0), ('zpc$', '$', 0), ('zpn%', '%', 0)],
                       'pstyle': [False] * 4, 'static': False, 'body': sbody}], 'features': []}
    text, rr = render.render(prog)
    plist = []
    for st, e, where in probes:
        ln = rr.stmt_line[id(st)]
        plist.append({'line': ln, 'expr': rr.e(e), 'type': etype(e), 'where': where})
    names = {'arrays': [(a[0], a[2]) for a in main.arrays + g.shared.arrays], 'records': [x[0] for x in main.records],
             'scalars': [x[0] for x in main.scalars]}
    return text, plist, names


# unit programs: every binary operator x ordered operand-type pair (and the unary operators) over boundary values held in
# variables - the debugger's evaluator and the code generator each carry their own copy of the operand-type rules
UNIT_POOL = {'%': [3, -7, 255, 32767, -32768], '&': [70000, -70000, 16777217, 2147483647, 33554433],
             '!': [0.5, 2.5, 16777216.0, 0.1, -1.5, 33554432.0], '#': [0.5, 2.5, 16777217.0, 0.1, 123456789.125, -2.5],
             '$': ['', 'a', 'ab', 'B', 'a ']}
UNIT_SMALL = {'%': [3, -7, 100], '&': [70000, -70000, 40000], '!': [0.5, 2.5, -1.5, 0.1], '#': [0.5, 2.5, 0.1, -2.5]}
UNIT_DIV = {'%': [3, -7], '&': [70000, -3], '!': [2.5, -1.5], '#': [2.5, -2.5]}
UNIT_OPS = ['+', '-', '*', '/', '\\', 'MOD', '=', '<>', '<', '>', '<=', '>=', 'AND', 'OR', 'XOR', 'EQV', 'IMP']
_UCOMBOS = [(op, ta, tb) for op in UNIT_OPS for ta in '%&!#' for tb in '%&!#'] + \
           [(op, '$', '$') for op in ('+', '=', '<>', '<', '>', '<=', '>=')] + [('neg', t, None) for t in '%&!#'] + \
           [('NOT', t, None) for t in '%&!#']
UNIT_PER = 14


def n_unit_programs():
    return (len(_UCOMBOS) + UNIT_PER - 1) // UNIT_PER


def build_unit(k, vseed):
    r = random.Random(vseed * 7919 + k)
    combos = _UCOMBOS[k * UNIT_PER:(k + 1) * UNIT_PER]
    lines = []
    plist = []

    def lit(t, v):
        if t == '$':
            return f'"{v}"'
        if t in '%&':
            return str(v) if v >= 0 else f'-{-v}'
        return (repr(float(v)) + ('#' if t == '#' else '!')).replace('-', '-')
    n = [0]

    def var(t, v):
        n[0] += 1
        nm = f'zu{n[0]}{t}'
        lines.append(f'{nm} = {lit(t, v)}')
        return nm
    stmts = []
    for op, ta, tb in combos:
        if tb is None:
            pool = UNIT_SMALL if op == 'neg' else UNIT_POOL
            vs = [x for x in pool[ta] if not (op == 'NOT' and abs(x) > 2e9)]
            a_ = var(ta, r.choice(vs))
            stmts.append((f'-{a_}' if op == 'neg' else f'NOT {a_}'))
            continue
        if op in ('+', '-', '*'):
            pa, pb = (UNIT_SMALL, UNIT_SMALL) if ta != '$' else (UNIT_POOL, UNIT_POOL)
        elif op in ('/', '\\', 'MOD'):
            pa, pb = UNIT_POOL, UNIT_DIV
        else:
            pa, pb = UNIT_POOL, UNIT_POOL
        va, vb = r.choice(pa[ta]), r.choice(pb[tb])
        if op in ('=', '<>', '<', '>', '<=', '>=') and r.random() < 0.7:
            # value pairs that are equal in one operand type and different in the other
            pairs = {('&', '!'): [(16777217, 16777216.0), (33554433, 33554432.0), (16777215, 16777216.0)],
                     ('!', '#'): [(0.1, 0.1), (16777216.0, 16777217.0), (0.7, 0.7)],
                     ('&', '#'): [(16777217, 16777217.0), (2147483647, 2147483647.0)],
                     ('%', '!'): [(3, 3.0000001), (255, 255.00002)]}
            if (ta, tb) in pairs:
                va, vb = r.choice(pairs[(ta, tb)])
            elif (tb, ta) in pairs:
                vb, va = r.choice(pairs[(tb, ta)])
        a_ = var(ta, va)
        b_ = var(tb, vb)
        stmts.append(f'{a_} {op} {b_}')
    for e in stmts:
        lines.append(f'PRINT {e}')
        plist.append({'line': len(lines), 'expr': e, 'type': None, 'where': 'unit'})
    text = '\n'.join(lines) + '\n'
    return text, plist, {'arrays': [], 'records': [], 'scalars': []}


BUILTIN_PROBES = ['LEN("abc")', 'ABS(-3)', 'LEFT$("hello", 2)', 'INT(2.5)', 'STR$(5)', 'VAL("7")', 'UCASE$("a")', 'CHR$(65)',
                  '2 ^ 0.5', '2 ^ 3', '10 MOD 3', '7 \\ 2', '-7 \\ 2', 'NOT 0', '1 / 3', '1.5 < 1.6', '"a" < "b"', '"a" + "b"',
                  '1 / 0', '1 \\ 0', '32767 + 1', '2000000000 + 2000000000', '1E+38 * 1E+38', 'RND', 'TIMER', 'INKEY$', 'ERR']


def parse_value(text, ty):
    t = text.strip('\n')
    if ty == '$':
        return t
    try:
        if ty in '%&':
            f = float(t)
            return int(f) if f == int(f) else f
        return float(t)
    except ValueError:
        return None


def same(a, b, ty):
    if ty == '$':
        return a == b
    if a is None or b is None:
        return False
    if ty in '%&':
        return a == b
    if a == b:
        return True
    tol = 1e-6 if ty == '!' else 1e-12
    return abs(a - b) <= tol * max(abs(a), abs(b), 1e-30)


# directed scenarios: names that shadow each other, array parameters handed on, FUNCTION frames, DEFtype
SCENARIOS = [
    """DIM SHARED zg AS INTEGER
DIM SHARED zh AS LONG
CONST zc = 11
CONST zonly = 5
zg = 7: zh = 70
zlocal% = 40
PRINT zc + zg
zshadow zlocal%, 5
PRINT zc + zg + zonly
zplain
zshadow zlocal%, 6
END
SUB zshadow (zg AS INTEGER, zq&)
CONST zc = 22
STATIC zs
zs = zs + 1.5
PRINT zg
PRINT zc
PRINT zh
PRINT zs
PRINT zg + zc + zh + zs + zq& + zonly
END SUB
SUB zplain
STATIC zs
zs = zs + 100
PRINT zc
PRINT zg
PRINT zs
END SUB
""",
    """TYPE zt
 a AS INTEGER
 b AS LONG
 c AS STRING
END TYPE
DIM zd(1 TO 2) AS LONG
zn% = 3
DIM zdyn(1 TO zn%) AS INTEGER
DIM zrr(1 TO 2, 0 TO 2) AS zt
zd(1) = 5: zd(2) = 6
zdyn(1) = 11: zdyn(2) = 12: zdyn(3) = 13
FOR i% = 1 TO 2: FOR j% = 0 TO 2
zrr(i%, j%).a = i% * 10 + j%: zrr(i%, j%).b = 1000 + i% * 10 + j%: zrr(i%, j%).c = "s" + STR$(i% * 10 + j%)
NEXT: NEXT
PRINT zrr(1, 2).a
PRINT zrr(2, 1).b
PRINT zrr(2, 2).c
PRINT zdyn(2) + zd(2)
zbar zd(), zdyn(), zrr()
END
SUB zbar (dd() AS LONG, dy() AS INTEGER, rr() AS zt)
PRINT dd(2)
PRINT dy(3)
PRINT rr(1, 2).b
zbaz dd(), dy(), rr()
END SUB
SUB zbaz (d3() AS LONG, y3() AS INTEGER, r3() AS zt)
PRINT d3(1) + d3(2)
PRINT y3(2)
PRINT r3(2, 1).a
PRINT r3(1, 1).c
END SUB
""",
    """DECLARE FUNCTION zf& (n&)
zr& = zf&(3)
PRINT zr&
END
FUNCTION zf& (n&)
STATIC zcalls%
zcalls% = zcalls% + 1
zloc& = n& * 2
PRINT n& + zloc& + zcalls%
IF n& > 1 THEN zf& = zf&(n& - 1) + n& ELSE zf& = 1
PRINT n&
PRINT zloc& - zcalls%
END FUNCTION
""",
    """DEFINT I-K
DEFSTR S
DEFDBL D
ik = 7
sname = "ab"
dv = 1.5
zother = 2.25
PRINT ik
PRINT sname + "!"
PRINT dv * 3
PRINT zother + ik
zsub ik
END
SUB zsub (jp)
kloc = jp + 1
slocal = "q"
PRINT jp + kloc
PRINT slocal + slocal
END SUB
""",
    """DIM za(0 TO 5) AS INTEGER
DIM zm(1 TO 2, 0 TO 3) AS LONG
FOR i% = 0 TO 5: za(i%) = 100 + i%: NEXT
FOR i% = 1 TO 2: FOR j% = 0 TO 3: zm(i%, j%) = i% * 1000 + j%: NEXT: NEXT
zh! = 2.5
zk# = .5
PRINT za(2.5)
PRINT za(zh!)
PRINT za(zk#)
PRINT za(4.5)
PRINT za(1.5)
PRINT za(zh! + 1)
PRINT za(zh! * 1.8)
PRINT za(2.4999) + za(2.5001)
PRINT zm(1.5, zk#)
PRINT zm(zk# + 1, 2.5)
""",
    """DIM SHARED zsa(1 TO 3) AS INTEGER
DIM SHARED zsr AS STRING
zsa(1) = 1: zsa(2) = 2: zsa(3) = 3
zsr = "shared"
za = 1.5
zuse za, 4
PRINT za
END
SUB zuse (za, zsa%)
DIM zloc(1 TO 2) AS DOUBLE
zloc(1) = .5: zloc(2) = 2.5
PRINT za
PRINT zsa%
PRINT zloc(2) + za
PRINT zsr + "x"
za = za * 2
PRINT za
END SUB
""",
]


def build_scenario(i):
    text = SCENARIOS[i]
    plist = []
    for li, ln in enumerate(text.split('\n')):
        m_ = re.fullmatch(r'PRINT (.+)', ln)
        if m_:
            plist.append({'line': li + 1, 'expr': m_.group(1), 'type': None, 'where': f'scenario{i}'})
    return text, plist, {'arrays': [], 'records': [], 'scalars': []}


def scalar_model(mod, cpu):
    """Independent name -> cell map for scalar parameters, locals, STATIC and SHARED variables, rebuilt from the symbol tables in
    the debug section: {frame code_start: {name: ('local', idx) | ('global', idx)}}."""
    from qvm.cell import CellType  # noqa: F401
    di = mod.debug_info
    user_types = di.user_types

    def size(t):
        if t.is_array:
            if t.is_nodim_array or not all(d.lbound.is_const and d.ubound.is_const for d in t.array_dims):
                return 1
            n = 1
            for d in t.array_dims:
                n *= int(round(d.ubound.eval())) - int(round(d.lbound.eval())) + 1
            return 1 + 2 + 2 * len(t.array_dims) + n * size(t.array_base_type)
        if t.is_user_defined:
            return sum(size(ft) for ft in user_types[t.user_type_name].fields.values())
        return 1

    def scalar(t):
        return not t.is_array and not t.is_user_defined
    glob = {}
    pos = 0
    gorder = list(di.global_vars.items())
    for name, t in gorder:
        if scalar(t):
            glob[name] = ('global', pos)
        pos += size(t)
    routines = {'_main': di.main_routine}
    for name, rec in di.routines.items():
        routines[name] = rec.node.routine
    starts = {}
    ins, ops, sz = cpu.get_instruction_at(0)
    if ins is not None and ins.op == 'call':
        a = ops[0]
        i2, _, s2 = cpu.get_instruction_at(a)
        if i2 is not None and i2.op == 'frame':
            starts['_main'] = a + s2
    for name, rec in di.routines.items():
        i2, _, s2 = cpu.get_instruction_at(rec.start_offset)
        if i2 is not None and i2.op == 'frame':
            starts[name] = rec.start_offset + s2
    model = {}
    for name, routine in routines.items():
        if name not in starts:
            continue
        m = {}
        pos = 0
        for pn, t in routine.params.items():
            if scalar(t):
                m[pn] = ('local', pos)
            pos += 1
        for vn, t in routine.local_vars.items():
            if scalar(t):
                m[vn] = ('local', pos)
            pos += size(t)
        for gn, loc in glob.items():
            # STATIC variables live in the global area under a routine-qualified name; SHARED ones under their own
            if gn not in m and not gn.startswith('_'):
                m[gn] = loc
        model[starts[name]] = m
    return model, glob


def run_sweep(case, text, st, viol):
    """Single-step through the whole program; at every stop ask the debugger for every scalar name of every routine and
    compare with the cell the independent layout model names (current frame's routine decides visibility)."""
    O = case['k'] % 3
    c = rt.compile_src(text, O, True)
    if c.status != 'ok':
        return
    mod = rt.load_module(c.modbytes)
    s = dbgdrv.DbgSession(mod, {}, budget=200000)
    st['sessions'] += 1
    try:
        model, glob = scalar_model(mod, s.cpu)
    except Exception as e:  # noqa: BLE001
        st['sweep_model_unavailable'] = st.get('sweep_model_unavailable', 0) + 1
        return
    allnames = sorted({n for m in model.values() for n in m if not n.startswith('_')})     # '_...' are the compiler's temporaries
    cn = f'O{O}g'
    r = random.Random(case['seed'])
    stops = 0
    reported = set()
    while not s.finished and stops < 150:
        out, exc = s.do(r.choice(['step', 'step', 'stepi', 'next']))
        if exc is not None:
            if exc not in ('tick-budget', 'script-exhausted'):
                viol.append(V(f'C13:step-crash:{rt.crash_sig(exc)}', f'{cn}: {exc}', text=text))
            break
        stops += 1
        fr = s.cpu.cur_frame
        if fr is None:
            continue
        m = model.get(fr.code_start)
        if m is None:
            continue
        ins = s.cpu.get_instruction_at(s.cpu.pc)[0] if s.cpu.pc < len(mod.code) else None
        for name in r.sample(allnames, min(6, len(allnames))):
            d0, _ = state_digest(s.cpu, s.impl)
            out, exc = s.do('print ' + name)
            d1, _ = state_digest(s.cpu, s.impl)
            st['state_digests_compared'] += 1
            st['sweep_probes'] = st.get('sweep_probes', 0) + 1
            where = f"stop {stops} (pc {s.cpu.pc:#x}, {ins.op if ins else '?'}, line {getattr(s.cur_stmt(), 'source_start_line', None)})"
            if exc is not None:
                k_ = f'C13:print-crash:{rt.crash_sig(exc)}'
                if k_ not in reported:
                    reported.add(k_)
                    viol.append(V(k_, f'{cn}: print {name!r} at {where}: {type(exc).__name__}: {exc}', text=text, expr=name))
                continue
            if d0 != d1 and 'state' not in reported:
                reported.add('state')
                viol.append(V('C13:print-changed-program-state', f'{cn}: print {name!r} at {where} altered the machine state', text=text))
            loc = m.get(name)
            is_err = out.startswith('Eval error') or out.startswith('Error parsing')
            if loc is None:
                # a name of another routine: not visible here
                st['negative_probes'] += 1
                if not is_err and 'scope' not in reported:
                    reported.add('scope')
                    viol.append(V('C13:value-for-name-not-in-scope', f'{cn}: print {name!r} at {where} answered {out.strip()[:60]!r}; '
                                  f'the routine of the current frame has no such variable', text=text, expr=name))
                continue
            seg = s.cpu.globals_segment if loc[0] == 'global' else fr
            try:
                cell = seg.cells[loc[1]]
            except Exception:
                continue
            hops = 0
            while cell is not None and cell.type.name == 'REFERENCE' and hops < 4:
                ref = cell.value
                try:
                    cell = ref.segment.cells[ref.index]
                except Exception:
                    cell = None
                hops += 1
            if cell is None:
                continue            # never assigned: the debugger may say so
            v = cell.value
            st['probes_compared'] += 1
            st['sweep_values_compared'] = st.get('sweep_values_compared', 0) + 1
            ty = {'INTEGER': '%', 'LONG': '&', 'SINGLE': '!', 'DOUBLE': '#', 'STRING': '$'}.get(cell.type.name)
            if ty is None:
                continue
            if is_err:
                if 'evalerr' not in reported:
                    reported.add('evalerr')
                    viol.append(V('C13:eval-error-on-valid-expression', f'{cn}: print {name!r} at {where}: debugger says '
                                  f'{out.strip()!r}, the cell holds {cell.type.name} {v!r}', text=text, expr=name))
                continue
            dv = parse_value(out, ty)
            if not same(dv, v, ty) and 'value' not in reported:
                reported.add('value')
                viol.append(V(f'C13:value-differs:sweep:{ty}', f'{cn}: print {name!r} at {where}: debugger {out.strip()!r}, the cell '
                              f'the layout model names holds {cell.type.name} {v!r}', text=text, expr=name))
    st['sweep_stops'] = st.get('sweep_stops', 0) + stops


def gen_cases(tier, seed):
    n = 60 if tier == 'quick' else 900
    cs = [{'seed': seed * 100003 + i, 'k': i} for i in range(n)]
    for i in range(len(SCENARIOS)):
        for O in (0, 1, 2):
            cs.append({'scenario': i, 'k': O, 'seed': i})
            cs.append({'scenario': i, 'k': O, 'seed': seed * 31 + i * 3 + O, 'sweep': True})
    for i in range(10 if tier == 'quick' else 200):
        cs.append({'seed': seed * 100003 + i, 'k': i, 'sweep': True})
    for rep in range(2 if tier == 'quick' else 20):
        for u in range(n_unit_programs()):
            cs.append({'unit': u, 'vseed': seed * 101 + rep, 'k': u + rep, 'seed': u})
    return cs


def run_case(case):
    st = {'probes_compared': 0, 'state_digests_compared': 0, 'negative_probes': 0, 'sessions': 0, 'probe_places': [],
          'builtin_probes': 0, 'after_finish_probes': 0}
    viol = []
    shapes = []
    if case.get('unit') is not None:
        text, plist, names = build_unit(case['unit'], case['vseed'])
        st['unit_programs'] = 1
    else:
        text, plist, names = build(case['seed']) if case.get('scenario') is None else build_scenario(case['scenario'])
    if case.get('sweep'):
        run_sweep(case, text, st, viol)
        return {'viol': viol, 'stats': st, 'shape': [f"sweep|{shape_of(text)}|{case['k'] % 3}"], 'nontrivial': st.get('sweep_probes', 0) > 0,
                'sample': {'program': text[:300], 'sweep_stops': st.get('sweep_stops', 0), 'sweep_probes': st.get('sweep_probes', 0)}}
    O = case['k'] % 3
    c = rt.compile_src(text, O, True)
    if c.status != 'ok':
        return {'viol': [V(f'C13:program-rejected:{c.sig or c.err_code}', f'{c.brief()} {c.msg} line {rt.line_of(text, c.loc)}',
                           text=text)], 'stats': st, 'shape': None, 'nontrivial': False}
    mod = rt.load_module(c.modbytes)
    s = dbgdrv.DbgSession(mod, {}, budget=200000)
    st['sessions'] += 1
    di = mod.debug_info
    by_addr = {}
    for p in plist:
        a = bp_model(di, p['line'])
        if a is not None:
            by_addr.setdefault(a, p)
            s.do(f"break {p['line']}")
    cn = f'O{O}g'

    def ask(expr):
        d0, _ = state_digest(s.cpu, s.impl)
        out, exc = s.do('print ' + expr)
        d1, _ = state_digest(s.cpu, s.impl)
        st['state_digests_compared'] += 1
        if exc is None and d0 != d1:
            viol.append(V('C13:print-changed-program-state', f'{cn}: print {expr!r} altered the machine state', text=text))
        return out, exc
    negatives_done = False
    guard = 0
    sample = None
    while not s.finished and guard < 400:
        guard += 1
        p = by_addr.get(s.cpu.pc)
        if p is None or s.cpu.halt_reason.name != 'BREAKPOINT' and guard > 1 and False:
            out, exc = s.do('continue')
            if exc is not None:
                if exc not in ('tick-budget', 'script-exhausted'):
                    viol.append(V(f'C13:continue-crash:{rt.crash_sig(exc)}', f'{cn}: {exc}', text=text))
                break
            continue
        out, exc = ask(p['expr'])
        if exc is not None:
            viol.append(V(f'C13:print-crash:{rt.crash_sig(exc)}', f"{cn}: print {p['expr']!r} at line {p['line']} ({p['where']}): "
                          f'{type(exc).__name__}: {exc}', text=text, expr=p['expr']))
            dbg_val = ('crash',)
        else:
            dbg_val = out
        if not negatives_done:
            negatives_done = True
            neg = ['znosuchvar', 'znosuch%(1)', 'znosuch.f', '1 +', '(', 'zz zz', '"unterminated']
            for an, dims in names['arrays'][:3]:
                lb, ub = dims[0]
                idx_lo = ', '.join([str(lb - 1)] + [str(d[0]) for d in dims[1:]])
                idx_hi = ', '.join([str(ub + 1)] + [str(d[0]) for d in dims[1:]])
                neg += [f'{an}({idx_lo})', f'{an}({idx_hi})', f'{an}(' + ', '.join(['1'] * (len(dims) + 1)) + ')']
            for sn in names['scalars'][:2]:
                neg += [f'{sn}.zf', f'{sn}(1)'] if not sn.endswith('$') else [f'{sn}.zf']
            for rn in names['records'][:1]:
                neg += [f'{rn}.znofield', f'{rn}(1)']
            for e in neg:
                st['negative_probes'] += 1
                o2, x2 = ask(e)
                if x2 is not None:
                    viol.append(V(f'C13:print-crash:{rt.crash_sig(x2)}', f'{cn}: print {e!r} (negative set): '
                                  f'{type(x2).__name__}: {x2}', text=text, expr=e))
                elif not (o2.startswith('Eval error') or o2.startswith('Error parsing')):
                    viol.append(V('C13:bad-expression-not-reported', f'{cn}: print {e!r} answered {o2[:80]!r} instead of an '
                                  'evaluation error', text=text, expr=e))
            # whole arrays and whole records (the debugger renders them): nothing is demanded of the text, only that the
            # debugger survives and the machine stays untouched (ask() compares the state digests)
            for an, dims in names['arrays'][:4]:
                for e in (an, f'{an}()', f'{an}(' + ', '.join(str(d[0]) for d in dims) + ')'):
                    st['aggregate_probes'] = st.get('aggregate_probes', 0) + 1
                    o2, x2 = ask(e)
                    if x2 is not None:
                        viol.append(V(f'C13:print-crash:{rt.crash_sig(x2)}', f'{cn}: print {e!r} (whole array / first element): '
                                      f'{type(x2).__name__}: {x2}', text=text, expr=e))
            for rn in names['records'][:3]:
                st['aggregate_probes'] = st.get('aggregate_probes', 0) + 1
                o2, x2 = ask(rn)
                if x2 is not None:
                    viol.append(V(f'C13:print-crash:{rt.crash_sig(x2)}', f'{cn}: print {rn!r} (whole record): {type(x2).__name__}: {x2}',
                                  text=text, expr=rn))
            for e in BUILTIN_PROBES:
                st['builtin_probes'] += 1
                o2, x2 = ask(e)
                if x2 is not None:
                    viol.append(V(f'C13:print-crash:{rt.crash_sig(x2)}', f'{cn}: print {e!r}: {type(x2).__name__}: {x2}',
                                  text=text, expr=e))
        # now let the program evaluate the same expression
        h0 = len(s.impl.h)
        out2, exc2 = s.do('step')
        if exc2 is not None:
            if exc2 not in ('tick-budget', 'script-exhausted'):
                viol.append(V(f'C13:step-crash:{rt.crash_sig(exc2)}', f'{cn}: {exc2}', text=text))
            break
        pr = [e for e in s.impl.h[h0:] if e[0] == 'print']
        if not pr:
            # the program failed evaluating it (run-time error): the debugger must have said so, or at least not crashed
            if s.finished and dbg_val != ('crash',) and not str(dbg_val).startswith('Eval error'):
                st['probe_trapped_in_program'] = st.get('probe_trapped_in_program', 0) + 1
            continue
        item = pr[0][1][0]
        if dbg_val == ('crash',):
            continue
        st['probes_compared'] += 1
        st['probe_places'] = sorted(set(st['probe_places']) | {p['where']})
        shapes.append(f"{shape_of(text)}|{p['expr']}")
        ty = item[1]
        pv = item[2]
        dv = parse_value(dbg_val, ty)
        if str(dbg_val).startswith('Eval error'):
            viol.append(V('C13:eval-error-on-valid-expression', f"{cn}: print {p['expr']!r} at line {p['line']} ({p['where']}): "
                          f'debugger says {dbg_val.strip()!r}, the program printed {item[1:]}', text=text, expr=p['expr']))
        elif not same(dv, pv, ty):
            viol.append(V(f"C13:value-differs:{p['where']}:{ty}", f"{cn}: print {p['expr']!r} at line {p['line']} ({p['where']}): "
                          f'debugger {dbg_val.strip()!r}, program {item[1:]}', text=text, expr=p['expr']))
        if sample is None:
            sample = {'probe_expr': p['expr'], 'line': p['line'], 'debugger': str(dbg_val).strip(), 'program': item[1:]}
    # after the program finished: print must not crash
    for e in ['1 + 1', plist[0]['expr'], 'znosuchvar']:
        st['after_finish_probes'] += 1
        out, exc = s.do('print ' + e)
        if exc is not None:
            viol.append(V(f'C13:print-crash-after-finish:{rt.crash_sig(exc)}', f'{cn}: print {e!r} after the program finished: '
                          f'{type(exc).__name__}: {exc}', text=text, expr=e))
    return {'viol': viol, 'stats': st, 'shape': shapes, 'nontrivial': bool(shapes), 'sample': sample}
