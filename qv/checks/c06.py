"""C06 - the compiler is total: any text yields a module or a located diagnostic."""
import random
import re

from .. import cases, rt
from .common import shape_of, gen_cases_corpus, V

PROP = 'C06'
LEVEL = 'exploration'
RULE = ('texts = token-level mutations (delete/duplicate/swap/replace/insert, identifier cross-substitution) of '
        'valid generated programs and repo snippets + statement-form sweep (every statement keyword with '
        'missing/extra/wrongly-typed operands in main, SUB, block and one-line IF) + the namespace family (one base name '
        'declared as SUB/FUNCTION/variable/array/CONST/TYPE/label/record/parameter/STATIC with every type suffix and used as '
        'each of ~190 other things, in the main program and in a procedure) + numeric literals at every type/format limit in '
        'every place a number can stand (49 spellings x 60 contexts, all six configurations) + the unmutated programs; each '
        'compiled at 2 of the 6 configurations (sweep: all 6), accepted ones also assembled (bytes) and listed (str); '
        'non-trivial = text reached the parser with >=1 statement; distinct = text hash with digits erased')
ASSUMPTIONS = ['termination is judged by a 30 s then 90 s wall-clock guard per compilation (a text that exceeds both '
               'is reported as non-terminating)']
REQUIRED_COUNTERS = ['texts', 'accepted', 'syntax_errors', 'compile_errors', 'loc_checked']
CASE_TIMEOUT = 900

TOKEN_RE = re.compile(r'"[^"\n]*"|[A-Za-z][A-Za-z0-9]*[%&!#$]?|\d+\.?\d*(?:[eEdD][+-]?\d+)?[%&!#]?|<>|<=|>=|\n|[ \t]+|.')
POOL = ['IF', 'THEN', 'ELSE', 'ELSEIF', 'END', 'FOR', 'TO', 'STEP', 'NEXT', 'WHILE', 'WEND', 'DO', 'LOOP', 'UNTIL',
        'SELECT', 'CASE', 'IS', 'SUB', 'FUNCTION', 'DIM', 'SHARED', 'STATIC', 'AS', 'INTEGER', 'LONG', 'SINGLE',
        'DOUBLE', 'STRING', 'CONST', 'PRINT', 'USING', 'INPUT', 'READ', 'DATA', 'RESTORE', 'GOTO', 'GOSUB', 'RETURN',
        'EXIT', 'CALL', 'LET', 'NOT', 'AND', 'OR', 'XOR', 'EQV', 'IMP', 'MOD', 'TYPE', 'ON', 'ERROR', 'RESUME',
        'LOCATE', 'COLOR', 'CLS', 'BEEP', 'SOUND', 'PLAY', 'POKE', 'PEEK', 'DEF', 'SEG', 'SCREEN', 'WIDTH', 'VIEW',
        'RANDOMIZE', 'KILL', 'DECLARE', 'DEFINT', 'DEFSTR', 'REM', 'LEN', 'MID$', 'LEFT$', 'STR$', 'VAL', 'ABS', 'INT',
        'CHR$', 'ASC', 'UBOUND', 'LBOUND', 'RND', 'TIMER', 'INKEY$', 'ERR', 'STRING$', 'SPACE$', 'INSTR',
        '+', '-', '*', '/', '\\', '^', '=', '<', '>', '<>', '<=', '>=', '(', ')', ',', ';', ':', '.', "'", '"', '"abc"',
        '"\u20ac"', '"\u0416x"', '\u2028', '\x0c', '"a\x0cb"', '\u00e9', '"\u00e9"', '\u00a0',
        '0', '1', '-1', '2', '32767', '32768', '2147483648', '1.5', '1E+38', '1E+39', '1D+308', '1D+309', '&HFF',
        '&HFFFFFFFFF', '1%', '32768%', '1&', '1!', '1#', '1$', 'x', 'x%', 'x$', 'y&', 'a.b', 'x(1)', 'x()', '\n', ' ']

STMT_FORMS = [
    'LOCATE', 'LOCATE 5', 'LOCATE , 5', 'LOCATE 5, 5', 'LOCATE 5, 5, 1', 'LOCATE 5, 5, 1, 2', 'LOCATE 5, 5, 1, 2, 3',
    'LOCATE , , 1', 'LOCATE ,', 'LOCATE "a"', 'LOCATE 1, "b"', 'LOCATE 5, 5, 1, 2, 3, 4',
    'COLOR', 'COLOR 1', 'COLOR 1, 2', 'COLOR 1, 2, 3', 'COLOR , 2', 'COLOR , , 3', 'COLOR 1, , 3', 'COLOR ,,', 'COLOR "a"',
    'COLOR 1, 2, 3, 4', 'SCREEN', 'SCREEN 1', 'SCREEN 1, 2', 'SCREEN 1, 2, 3', 'SCREEN 1, 2, 3, 4', 'SCREEN 1, 2, 3, 4, 5',
    'SCREEN "x"', 'WIDTH', 'WIDTH 80', 'WIDTH 80, 25', 'WIDTH , 25', 'WIDTH ,', 'WIDTH "a"', 'WIDTH 80, 25, 1',
    'VIEW PRINT', 'VIEW PRINT 1 TO 5', 'VIEW PRINT 1', 'VIEW PRINT 1 TO', 'VIEW PRINT "a" TO 2', 'VIEW',
    'CLS', 'CLS 1', 'BEEP', 'BEEP 1', 'SOUND', 'SOUND 440', 'SOUND 440, 1', 'SOUND 440, 1, 2', 'SOUND "a", 1',
    'PLAY', 'PLAY "abc"', 'PLAY 1', 'PLAY "a", "b"', 'POKE', 'POKE 1', 'POKE 1, 2', 'POKE 1, 2, 3', 'POKE "a", 1',
    'DEF SEG', 'DEF SEG = 0', 'DEF SEG = "a"', 'DEF SEG 0', 'DEF', 'RANDOMIZE', 'RANDOMIZE 1', 'RANDOMIZE "a"',
    'RANDOMIZE TIMER', 'KILL', 'KILL "f"', 'KILL 1', 'BLOAD "f"', 'BLOAD "f", 0', 'BLOAD', 'BLOAD 1', 'BSAVE "f", 0, 1',
    'BSAVE "f"', 'BSAVE "f", 0', 'PRINT', 'PRINT ;', 'PRINT ,', 'PRINT ;;', 'PRINT 1 2', 'PRINT 1;', 'PRINT ;1',
    'PRINT USING "##"; 1', 'PRINT USING "##"; 1; 2', 'PRINT USING "##"', 'PRINT USING "##";', 'PRINT USING 1; 2',
    'PRINT USING "&"; 5', 'PRINT USING "#"; "a"', 'PRINT USING "x_"; 1', 'PRINT USING "!"; ""', 'PRINT USING ; 1',
    'PRINT USING "##", 1', 'INPUT', 'INPUT x', 'INPUT "p"; x', 'INPUT "p", x', 'INPUT "p" x', 'INPUT ; x', 'INPUT ;"p"; x',
    'INPUT x,', 'INPUT 1', 'INPUT "p";', 'INPUT x y', 'INPUT r', 'INPUT arr(1)', 'INPUT x + 1',
    'READ', 'READ x', 'READ x,', 'READ 1', 'READ x y', 'DATA', 'DATA 1', 'DATA ,', 'DATA "a', 'DATA a"b', 'DATA 1 : PRINT 2',
    'RESTORE', 'RESTORE lbl', 'RESTORE 10', 'RESTORE nolabel', 'RESTORE 1 2', 'RESTORE "a"', 'RESTORE nodata',
    'GOTO', 'GOTO lbl', 'GOTO 10', 'GOTO nolabel', 'GOTO 1.5', 'GOTO x%', 'GOSUB', 'GOSUB lbl', 'GOSUB nolabel',
    'RETURN', 'RETURN lbl', 'RETURN nolabel', 'RETURN 1 2', 'ON ERROR GOTO lbl', 'ON ERROR GOTO 0', 'ON ERROR GOTO nolabel',
    'ON ERROR RESUME NEXT', 'ON ERROR', 'ON ERROR GOTO', 'ON ERROR RESUME', 'ON', 'RESUME', 'RESUME NEXT', 'RESUME lbl',
    'RESUME 0', 'ERROR 5', 'END', 'END 1', 'END IF', 'END SELECT', 'END SUB', 'END FUNCTION', 'END TYPE', 'END WHILE',
    'SYSTEM', 'STOP', 'ELSE', 'ELSEIF 1 THEN', 'ELSEIF', 'CASE 1', 'CASE ELSE', 'CASE', 'CASE IS', 'CASE IS > ', 'CASE 1 TO',
    'NEXT', 'NEXT x', 'NEXT x, y', 'NEXT 1', 'WEND', 'LOOP', 'LOOP WHILE 1', 'LOOP UNTIL', 'LOOP UNTIL "a"', 'EXIT FOR',
    'EXIT DO', 'EXIT SUB', 'EXIT FUNCTION', 'EXIT', 'EXIT WHILE', 'FOR', 'FOR i', 'FOR i =', 'FOR i = 1', 'FOR i = 1 TO',
    'FOR i = 1 TO 2 STEP', 'FOR s$ = 1 TO 2', 'FOR i = "a" TO 2', 'FOR r = 1 TO 2', 'FOR arr(1) = 1 TO 2', 'FOR i = 1 TO 2 : NEXT',
    'FOR i = 1 TO 2 : NEXT j', 'WHILE', 'WHILE "a"', 'WHILE 1 : WEND', 'DO : LOOP UNTIL 1', 'DO WHILE "a" : LOOP',
    'DO WHILE 1 : LOOP WHILE 0', 'DO UNTIL', 'IF', 'IF 1', 'IF 1 THEN', 'IF THEN', 'IF 1 THEN ELSE', 'IF 1 THEN PRINT 1 ELSE',
    'IF 1 THEN PRINT 1 ELSE PRINT 2 ELSE PRINT 3', 'IF "a" THEN PRINT 1', 'IF r THEN PRINT 1', 'IF 1 THEN 10', 'IF 1 GOTO 10',
    'IF 1 THEN IF 2 THEN PRINT 3 ELSE PRINT 4', 'IF 1 THEN : PRINT 1', 'IF 1 THEN PRINT 1;  ELSE PRINT 2',
    'SELECT', 'SELECT CASE', 'SELECT CASE 1', 'SELECT CASE "a" : CASE 1 : END SELECT', 'SELECT CASE 1 : CASE "a" : END SELECT',
    'SELECT CASE r : CASE 1 : END SELECT', 'SELECT CASE 1 : CASE 1 TO "a" : END SELECT', 'SELECT CASE 1 : CASE IS > "a" : END SELECT',
    'DIM', 'DIM x', 'DIM x AS', 'DIM x AS INTEGER', 'DIM x AS nosuchtype', 'DIM x(', 'DIM x()', 'DIM x(1 TO)', 'DIM x(5 TO 1)',
    'DIM x("a")', 'DIM x(1, 2, 3, 4, 5, 6, 7, 8, 9)', 'DIM x%(1) AS LONG', 'DIM x$ AS INTEGER', 'DIM SHARED', 'DIM SHARED x',
    'DIM x, y, x', 'DIM x(1), x(2)', 'DIM x(y)', 'DIM x(-1)', 'DIM x(1.5)', 'DIM x(70000)', 'DIM x(1 TO 2, 3 TO 4) AS tt',
    'STATIC', 'STATIC x', 'STATIC x(3)', 'SHARED x', 'COMMON x', 'REDIM x(5)', 'ERASE x', 'SWAP x, y', 'OPTION BASE 1',
    'CONST', 'CONST c', 'CONST c =', 'CONST c = 1', 'CONST c = x', 'CONST c = 1, d = 2', 'CONST c% = "a"', 'CONST c$ = 1',
    'CONST c = 1 / 0', 'CONST c = RND', 'CONST c = c', 'CONST c = LEN("a")', 'CONST c% = 40000', 'CONST c = 1 : c = 2',
    'CONST c = 1 : CONST c = 2', 'TYPE', 'TYPE t', 'TYPE t : END TYPE', 'TYPE t : a AS INTEGER : END TYPE',
    'TYPE t : a AS t : END TYPE', 'TYPE t : a AS nosuch : END TYPE', 'TYPE t : a AS INTEGER : a AS LONG : END TYPE',
    'TYPE t : PRINT 1 : END TYPE', 'TYPE tq : n AS tq : END TYPE : DIM vq AS tq', 'TYPE tq : n AS tq : END TYPE : DIM vq(3) AS tq',
    'TYPE ta : b AS tb : END TYPE : TYPE tb : a AS ta : END TYPE : DIM vq AS ta', 'x = (-8) ^ 1.5', 'x = (-8) ^ .5', 'x# = (-8#) ^ 2.5#',
    'CONST cc = 1 : INPUT cc', 'CONST cc = 1 : READ cc', 'INPUT f', 'READ f', 'PRINT ERR', 'DIM big(2000000000)', 'n& = 2000000000 : DIM big(n&)', 'TYPE t : a AS STRING * 5 : END TYPE', 'TYPE t : a(5) AS INTEGER : END TYPE', 'TYPE 1',
    'DEFINT', 'DEFINT A', 'DEFINT A-Z', 'DEFINT Z-A', 'DEFINT A-', 'DEFINT 1', 'DEFINT A, B, C-D', 'DEFINT AB',
    'DECLARE', 'DECLARE SUB', 'DECLARE SUB s', 'DECLARE SUB s ()', 'DECLARE SUB s (a AS ANY)', 'DECLARE FUNCTION f% (a%)',
    'DECLARE SUB s (a() AS INTEGER)', 'DECLARE s', 'CALL', 'CALL s', 'CALL s()', 'CALL s(1)', 'CALL s(1, 2)', 'CALL nosub',
    'CALL s 1', 's', 's 1', 's 1, 2', 's (1)', 's(1)', 'nosub 1', 'CALL f', 'f', 'f 1', 'x = f', 'x = f()', 'x = f(1)',
    'x = f(1, 2)', 'x = s', 'x = s(1)', 'x = nofunc(1)', 'LET', 'LET x', 'LET x =', 'LET x = 1', 'LET 1 = x', 'x', 'x =',
    'x = = 1', '= 1', 'x = 1 +', 'x = + 1', 'x = - - 1', 'x = (1', 'x = 1)', 'x = ()', 'x = 1 1', 'x = "a" + 1', 'x = 1 + "a"',
    'x$ = 1', 'x% = "a"', 'x = r', 'r = 1', 'r = r', 'r2 = r', 'r.a = 1', 'r.nofield = 1', 'r.a.b = 1', 'x.a = 1', 'arr = 1',
    'arr(1) = 1', 'arr(1, 2) = 1', 'arr() = 1', 'arr("a") = 1', 'x(1) = 1', 'arr(1).a = 1', 'ra(1).a = 1', 'ra(1) = r',
    'ra.a = 1', 'x = arr', 'x = arr()', 'x = ra(1).a', 'x = 2 ^ -1', 'x = 2 ^ 3 ^ 2', 'x = -2 ^ 2', 'x = 2 ^ +1', 'x! = y! ^ -z!',
    'x = NOT', 'x = NOT NOT 1', 'x = 1 AND', 'x = 1 MOD', 'x = 1 \\ 0', 'x = 1 / 0', 'x = 1 MOD 0', 'x% = 32768', 'x% = 32767 + 1',
    'x = 1E+39', 'x = 1D+309', 'x# = 1D+309', 'x = &HFFFFFFFFF', 'x = &O8', 'x = &H', 'x = 1$', 'x = 32768%', 'x = 1.5%',
    'x = 1e5#', 'x = 1d5!', 'x = .', 'x = 1..2', 'x = 1e', 'x = "abc', 'x$ = "a" < "b"', 'x = "a" < "b"', 'x = "a" AND "b"',
    'x = -"a"', 'x = NOT "a"', 'x = "a" * 2', 'x = LEN', 'x = LEN()', 'x = LEN(1)', 'x = LEN("a", "b")', 'x = ABS("a")',
    'x = ASC(1)', 'x$ = CHR$("a")', 'x = VAL(1)', 'x$ = STR$("a")', 'x$ = MID$("a")', 'x$ = MID$("a", 1, 2, 3)',
    'x$ = LEFT$("a")', 'x$ = LEFT$(1, 1)', 'x = INSTR("a")', 'x = INSTR(1, 2, 3, 4)', 'x = INSTR("a", 1)', 'x = UBOUND(x)',
    'x = UBOUND(arr, "a")', 'x = UBOUND(arr, 1, 2)', 'x = UBOUND()', 'x = LBOUND(nosuch)', 'x = RND(1, 2)', 'x = RND("a")',
    'x = TIMER(1)', 'x$ = INKEY$(1)', 'x = ERR(1)', 'x = PEEK', 'x = PEEK("a")', 'x$ = STRING$(1)', 'x$ = STRING$("a", "b")',
    'x$ = SPACE$("a")', 'x = INT("a")', 'x = CINT("a")', 'x = CLNG()', 'x = SQR(4)', 'x = SIN(1)', 'x = FIX(1.5)', 'x = SGN(1)',
    'x$ = HEX$(255)', 'x = CSNG(1)', 'x = CDBL(1)', 'lbl:', 'lbl: lbl2:', '10', '10 20', '10 PRINT 1', 'lbl: PRINT 1', '1.5 PRINT 1',
    'PRINT: PRINT', ':', '::', ': PRINT 1', 'PRINT 1 :', "' comment", 'REM', 'REM x : PRINT 1', "PRINT 1 ' c", 'PRINT "a"; "b" "c"',
    'SUB', 'SUB s2', 'SUB s2 (', 'SUB s2 ()', 'SUB s2 (a, a)', 'SUB s2 (a AS nosuch)', 'SUB s2 (a()) : END SUB', 'SUB s2 STATIC : END SUB',
    'SUB s2 : SUB s3 : END SUB : END SUB', 'SUB s2 : END FUNCTION', 'FUNCTION f2 : END SUB', 'FUNCTION f2$ (a$) : f2$ = a$ : END FUNCTION',
    'FUNCTION f2 : f2 = "a" : END FUNCTION', 'FUNCTION', 'FUNCTION f2(', 'SUB s : END SUB', 'FUNCTION f : END FUNCTION',
    'SUB x : END SUB', 'SUB s2 : DATA 1 : END SUB', 'SUB s2 : TYPE t2 : a AS LONG : END TYPE : END SUB', 'SUB s2 : DIM SHARED q : END SUB',
    'SUB s2 : SHARED x : END SUB', 'SUB s2 : STATIC q : q = q + 1 : END SUB', 'SUB s2 : lbl: : END SUB', 'SUB s2 : GOTO lbl : END SUB',
    'SUB s2 (n%) : FOR n% = 1 TO 2 : NEXT : END SUB', 'SUB s2 (rr AS tt) : PRINT rr.a : END SUB : s2 r',
    'PRINT "\u20ac"', 'DATA \u20ac, 1', 'x$ = "\u0416"', 'PRINT "a" \' \u20ac', 'REM \u2028 x', 'INPUT "\u20ac"; x', 'PLAY "\u266b"', 'KILL "\u20ac"',
    'DATA "a\x0cb", \x0b', 'PRINT "\x00"', 'zl\u00e9: PRINT 1', 'x\u00e9 = 1', '\u00a0PRINT 1', 'PRINT\u00a01',
    'OPEN "f" FOR INPUT AS #1', 'CLOSE', 'LINE (1,1)-(2,2)', 'PSET (1, 1)', 'CIRCLE (1,1), 5', 'LINE INPUT x$', 'WRITE 1',
    'LPRINT 1', 'GET #1', 'PUT #1', 'ON x GOSUB 10', 'ON x GOTO 10', 'DEF FNa(x) = x', 'CLEAR', 'RUN', 'CHAIN "x"', 'SLEEP', 'SLEEP 1',
    'TRON', 'KEY OFF', 'PALETTE', 'PCOPY 1, 2', 'SHELL', 'NAME "a" AS "b"', 'MID$(x$, 1) = "a"', 'LSET x$ = "a"', 'x = ERL',
    'x = CSRLIN', 'x = POS(0)', 'x$ = DATE$', 'x$ = TIME$', 'x = FRE(0)', 'x$ = INPUT$(1)', 'x$ = SPC(1)', 'PRINT TAB(5); 1', 'PRINT SPC(2); 1',
]

PRELUDE = ('TYPE tt\na AS INTEGER\nb AS STRING\nEND TYPE\nDIM r AS tt\nDIM r2 AS tt\nDIM arr(5) AS INTEGER\n'
           'DIM ra(3) AS tt\n')
POSTLUDE = ('\nEND\nlbl: PRINT 1\nRETURN\n10 DATA 1, 2\nnodata: PRINT 2\nSUB s (p%)\nEND SUB\nFUNCTION f (p%)\nf = p%\nEND FUNCTION\n')


# --- namespace family: one base name declared as one kind of thing and used as another (every suffix combination) ---
NS_DSUF = ['', '%', '&', '$', '#']
NS_USUF = ['', '%', '$', '#', '!']


def _v(suf):
    return '"a"' if suf == '$' else '1'


NS_DECLS = (
    [('sub', 'SUB q\nEND SUB', 'post'), ('type', 'TYPE q\na AS INTEGER\nEND TYPE', 'pre'), ('label', 'q:', 'pre'),
     ('lineno-like', 'q: DATA 1, 2', 'post'), ('record', 'DIM q AS tt', 'pre'), ('recarray', 'DIM q(2) AS tt', 'pre'),
     ('defint', 'DEFINT Q', 'pre'), ('declare-sub', 'DECLARE SUB q ()', 'pre'), ('dim-as', 'DIM q AS LONG', 'pre'),
     ('dim-as-str', 'DIM q AS STRING', 'pre'), ('shared-arr', 'DIM SHARED q(3) AS INTEGER', 'pre')]
    + [(f'function{d}', f'FUNCTION q{d}\nq{d} = {_v(d)}\nEND FUNCTION', 'post') for d in NS_DSUF]
    + [(f'dim{d}', f'DIM q{d}', 'pre') for d in NS_DSUF]
    + [(f'array{d}', f'DIM q{d}(3)', 'pre') for d in NS_DSUF]
    + [(f'shared{d}', f'DIM SHARED q{d}', 'pre') for d in NS_DSUF]
    + [(f'const{d}', f'CONST q{d} = {_v(d)}', 'pre') for d in NS_DSUF]
    + [(f'declare-function{d}', f'DECLARE FUNCTION q{d} ()', 'pre') for d in NS_DSUF]
    + [(f'param{d}', f'q{d}', 'param') for d in NS_DSUF]
    + [(f'arrparam{d}', f'q{d}()', 'param') for d in NS_DSUF]
    + [(f'static{d}', f'STATIC q{d}', 'insub') for d in NS_DSUF]
    + [(f'local-const{d}', f'CONST q{d} = {_v(d)}', 'insub') for d in NS_DSUF]
    + [(f'implicit{d}', f'q{d} = {_v(d)}', 'pre') for d in NS_DSUF]
)
NS_USES = (
    ['GOTO q', 'GOSUB q', 'RESTORE q', 'ON ERROR GOTO q', 'DIM zz AS q', 'SUB q\nEND SUB', 'TYPE q\na AS LONG\nEND TYPE', 'q:',
     'DECLARE SUB q ()', 'CALL q', 'CALL q(1)', 'DEFSTR Q', 'RETURN q', 'RESUME q']
    + [t.format(u=u, v=_v(u)) for u in NS_USUF for t in (
        'q{u} = {v}', 'PRINT q{u}', 'q{u}', 'q{u} 1', 'PRINT q{u}(1)', 'q{u}(1) = {v}', 'FOR q{u} = 1 TO 2\nNEXT', 'INPUT q{u}',
        'READ q{u}', 'DIM q{u}', 'DIM q{u}(2)', 'CONST q{u} = {v}', 'q{u}.a = 1', 'PRINT q{u}.a', 'PRINT LEN(q{u})', 'PRINT UBOUND(q{u})',
        's q{u}', 'x = f(q{u})', 'FUNCTION q{u}\nEND FUNCTION', 'STATIC q{u}', 'SHARED q{u}', 'DIM SHARED q{u}', 'PRINT q{u}(1).a',
        'x = q{u} + 1', 'x$ = q{u} + "a"', 'PRINT q{u}()', 'sa q{u}()', 'INPUT q{u}(1)', 'IF q{u} THEN PRINT 1', 'SELECT CASE q{u}\nCASE 1\nEND SELECT',
        'DIM zw(q{u})', 'CONST zc = q{u}', 'PRINT q{u}; : q{u} = {v}', 'WHILE q{u}\nWEND', 'LOCATE q{u}, 1', 'POKE q{u}, q{u}')]
)
NS_TAIL = ('\nEND\nSUB s (p%)\nEND SUB\nFUNCTION f (p%)\nf = p%\nEND FUNCTION\nSUB sa (p%())\nEND SUB\n')
NS_HEAD = 'TYPE tt\na AS INTEGER\nb AS STRING\nEND TYPE\n'


def ns_text(di, ui, where):
    name, decl, place = NS_DECLS[di]
    use = NS_USES[ui]
    toplevel_use = use.startswith(('SUB ', 'FUNCTION ', 'TYPE ', 'DECLARE ', 'DEFSTR', 'DIM SHARED'))
    if place in ('param', 'insub'):
        if toplevel_use:
            return None
        sub = (f'SUB zs ({decl})\n{use}\nEND SUB\n' if place == 'param' else f'SUB zs\n{decl}\n{use}\nEND SUB\n')
        if where == 'sub':
            return NS_HEAD + 'x = 1' + NS_TAIL + sub
        # the declaration lives in a procedure, the use in the main program
        sub0 = (f'SUB zs ({decl})\nEND SUB\n' if place == 'param' else f'SUB zs\n{decl}\nEND SUB\n')
        return NS_HEAD + use + NS_TAIL + sub0
    pre = decl + '\n' if place == 'pre' else ''
    post = decl + '\n' if place == 'post' else ''
    if where == 'main' or toplevel_use:
        if toplevel_use and use.startswith(('SUB ', 'FUNCTION ')):
            return NS_HEAD + pre + 'x = 1' + NS_TAIL + post + use + '\n'
        return NS_HEAD + pre + use + NS_TAIL + post
    return NS_HEAD + pre + 'zs' + NS_TAIL + post + f'SUB zs\n{use}\nEND SUB\n'


def ns_space():
    return [(di, ui, w) for di in range(len(NS_DECLS)) for ui in range(len(NS_USES)) for w in ('main', 'sub')]


# --- numeric literal x context: every spelling of a number at a type or format limit in every place a number can stand
LC_LITERALS = ['32767', '32768', '2147483647', '2147483648', '1E+38', '3.5E+38', '1E+39', '1D+308', '1.8D+308', '1D+309', '1D+400',
               '1E+400', '9' * 40, '9' * 400, '1E-46', '1D-400', '&H7FFF', '&H8000', '&HFFFF', '&H10000', '&HFFFFFFFF', '&H100000000',
               '&O177777', '&O200000', '&O', '.', '1.', '.E5', '1E', '1E+', '0.' + '0' * 45 + '1', '1%', '32768%', '1&', '2147483648&', '1!',
               '3.5E+38!', '1#', '1D+309#', '1E5%', '1.5&', '0', '1.5', '&H', '1E5', '1D5', '00012', '1e5', '1d5']
LC_CONTEXTS = ['x% = {L}', 'x& = {L}', 'x! = {L}', 'x# = {L}', 'DIM q({L})', 'DIM q({L} TO {L})', 'arr({L}) = 1', 'x = arr({L})', 'LOCATE {L}',
               'FOR i% = 1 TO {L}\nNEXT', 'FOR i% = {L} TO 2\nNEXT', 'FOR i = 1 TO 2 STEP {L}\nNEXT', 'PRINT {L}', 'PRINT -{L}',
               'CONST cq = {L}\nx% = cq', 'CONST cq% = {L}', 'x% = {L} + 1', 'x% = {L} * {L}', 'x% = CINT({L})', 'x& = CLNG({L})', 'x = {L} ^ 2',
               'x = 2 ^ {L}', 'IF {L} THEN PRINT 1', 'WHILE {L}\nWEND', 'SELECT CASE {L}\nCASE 1\nEND SELECT', 'SELECT CASE 1\nCASE {L}\nEND SELECT',
               'SELECT CASE 1\nCASE 0 TO {L}\nEND SELECT', 's {L}', 'x = f({L})', 'x$ = CHR$({L})', 'x$ = SPACE$({L})', 'x$ = STRING$({L}, 65)',
               'x$ = LEFT$("abc", {L})', 'x$ = MID$("abc", {L}, {L})', 'POKE {L}, {L}', 'SOUND {L}, {L}', 'DATA {L}', 'WIDTH {L}', 'COLOR {L}',
               'x = PEEK({L})', 'RANDOMIZE {L}', 'DEF SEG = {L}', 'x = NOT {L}', 'x = {L} MOD 7', 'x = 7 \\ {L}', 'x = {L} AND 1', 'x = -{L}',
               'x = ABS({L})', 'x = INT({L})', 'x$ = STR$({L})', 'PRINT USING "##"; {L}', 'GOTO {L}', 'RESTORE {L}', '{L} PRINT 1',
               'VIEW PRINT {L} TO {L}', 'SCREEN {L}', 'x = ({L})', 'x = {L}{L}', 'x = {L} {L}', 'IF 1 THEN {L}']
LC_HEAD = 'DIM arr(5) AS INTEGER\n'
LC_TAIL = '\nEND\nSUB s (p%)\nEND SUB\nFUNCTION f (p%)\nf = p%\nEND FUNCTION\n'


def litctx_space():
    return [(li, ci) for li in range(len(LC_LITERALS)) for ci in range(len(LC_CONTEXTS))]


def contexts(form):
    body = form.replace(' : ', '\n') if (' : ' in form and not form.startswith(('IF', 'PRINT', 'REM', 'DATA', "'", 'CONST c = 1 :'))) else form
    yield 'main', PRELUDE + body + POSTLUDE
    yield 'sub', PRELUDE + 'sb\n' + POSTLUDE + 'SUB sb\n' + body + '\nEND SUB\n'
    yield 'block', PRELUDE + 'FOR ii = 1 TO 2\nIF ii THEN\n' + body + '\nEND IF\nNEXT\n' + POSTLUDE
    if '\n' not in body and ' : ' not in form:
        yield 'ifline', PRELUDE + 'IF x THEN ' + form + ' ELSE ' + form + POSTLUDE
    yield 'bare', body + '\n'


def mutate(text, r, k):
    toks = TOKEN_RE.findall(text)
    idents = [t for t in toks if re.fullmatch(r'z[A-Za-z]+\d+[%&!#$]?', t)]
    for _ in range(k):
        if not toks:
            break
        i = r.randrange(len(toks))
        op = r.choice(['del', 'dup', 'swap', 'rep', 'ins', 'ident', 'rep', 'ins'])
        if op == 'del':
            del toks[i]
        elif op == 'dup':
            toks.insert(i, toks[i])
        elif op == 'swap' and len(toks) > 1:
            j = r.randrange(len(toks))
            toks[i], toks[j] = toks[j], toks[i]
        elif op == 'rep':
            toks[i] = r.choice(POOL)
        elif op == 'ins':
            toks.insert(i, ' ' + r.choice(POOL) + ' ')
        elif op == 'ident' and idents:
            cand = [j for j, t in enumerate(toks) if t in idents]
            if cand:
                toks[r.choice(cand)] = r.choice(idents)
    return ''.join(toks)


def gen_cases(tier, seed):
    r = random.Random(seed)
    cs = []
    n = 150 if tier == 'quick' else 3000
    per = 8 if tier == 'quick' else 16
    base = gen_cases_corpus(n, seed, opts={'max_stmts': 5, 'max_depth': 2}, with_repo=True)
    for i, b in enumerate(base):
        cs.append({'kind': 'mut', 'base': b, 'n': per if b['src'] == 'gen' else 3, 'mseed': seed * 7919 + i})
    space = ns_space()
    if tier == 'quick':
        space = random.Random(seed * 31 + 5).sample(space, 1400)
    for i in range(0, len(space), 50):
        cs.append({'kind': 'ns', 'items': space[i:i + 50]})
    lsp = litctx_space()
    if tier == 'quick':
        lsp = random.Random(seed * 17 + 3).sample(lsp, len(lsp) // 5)
    for i in range(0, len(lsp), 60):
        cs.append({'kind': 'litctx', 'items': lsp[i:i + 60]})
    forms = list(STMT_FORMS)
    B = 6
    for i in range(0, len(forms), B):
        cs.append({'kind': 'forms', 'forms': forms[i:i + B]})
    return cs


def check_text(text, cfgs, st, viol, tag):
    for cfg in cfgs:
        st['texts'] += 1
        c = None
        try:
            with rt.time_limit(30):
                c = rt.compile_src(text, cfg[0], cfg[1], want_bytes=True, want_listing=True)
        except rt.TimeLimit:
            try:
                with rt.time_limit(90):
                    c = rt.compile_src(text, cfg[0], cfg[1], want_bytes=True, want_listing=True)
                st['slow_compilations'] = st.get('slow_compilations', 0) + 1
            except rt.TimeLimit:
                viol.append(V('C06:nontermination', f'compilation did not finish within 90 s at {rt.cfg_name(cfg)}',
                              text=text, cfg=cfg, tag=tag))
                continue
        if c.status == 'ok':
            st['accepted'] += 1
        elif c.status == 'crash':
            st['crashes'] += 1
            viol.append(V(f'C06:crash:{c.sig}', f'{c.exc}: {c.msg} at {rt.cfg_name(cfg)} [{tag}]', text=text,
                          cfg=cfg, tb=c.tb, tag=tag))
        else:
            st['syntax_errors' if c.status == 'syntax' else 'compile_errors'] += 1
            st['loc_checked'] += 1
            if c.loc is None:
                viol.append(V(f'C06:loc-none:{c.err_code}', f'{c.status} {c.err_code} "{c.msg}" carries no position '
                              f'at {rt.cfg_name(cfg)} [{tag}]', text=text, cfg=cfg, tag=tag))
            elif not (0 <= c.loc <= len(text)):
                viol.append(V(f'C06:loc-outside:{c.err_code}', f'position {c.loc} outside text of length {len(text)}',
                              text=text, cfg=cfg, tag=tag))


def run_case(case):
    st = {'texts': 0, 'accepted': 0, 'syntax_errors': 0, 'compile_errors': 0, 'crashes': 0, 'loc_checked': 0}
    viol = []
    shapes = []
    sample = None
    if case['kind'] == 'mut':
        text, script, meta = cases.source_of(case['base'])
        r = random.Random(case['mseed'])
        all6 = rt.CONFIGS6
        k0 = case['mseed'] % 6
        check_text(text, [all6[k0], all6[(k0 + 3) % 6]], st, viol, 'unmutated')
        shapes.append(shape_of(text))
        for j in range(case['n']):
            mt = mutate(text, r, r.choice([1, 1, 2, 3, 5]))
            kk = (k0 + j) % 6
            check_text(mt, [all6[kk], all6[(kk + 4) % 6]], st, viol, 'mutation')
            shapes.append(shape_of(mt))
            if sample is None and j == 1:
                sample = {'mutated_text': mt[:400]}
    elif case['kind'] == 'litctx':
        st['literal_context_texts'] = 0
        for li, ci in case['items']:
            text = LC_HEAD + LC_CONTEXTS[ci].replace('{L}', LC_LITERALS[li]) + LC_TAIL
            st['literal_context_texts'] += 1
            check_text(text, rt.CONFIGS6, st, viol, f'literal {LC_LITERALS[li][:24]!r} in {LC_CONTEXTS[ci]!r}')
            shapes.append(f'litctx|{li}|{ci}')
        li, ci = case['items'][0]
        sample = {'literal_in_context': LC_CONTEXTS[ci].replace('{L}', LC_LITERALS[li])[:200]}
    elif case['kind'] == 'ns':
        st['namespace_texts'] = 0
        for di, ui, w in case['items']:
            text = ns_text(di, ui, w)
            if text is None:
                continue
            st['namespace_texts'] += 1
            check_text(text, [(0, False), (2, True)], st, viol, f'namespace[{w}]: {NS_DECLS[di][0]} / {NS_USES[ui]!r}')
            shapes.append(f'ns|{di}|{ui}|{w}')
        sample = {'namespace_text': ns_text(*case['items'][0]) or ''}
    else:
        for form in case['forms']:
            for ctx, text in contexts(form):
                check_text(text, rt.CONFIGS6 if ctx in ('main', 'ifline') else [(0, False), (2, True)], st, viol,
                           f'form[{ctx}]: {form}')
                shapes.append(shape_of(text))
        sample = {'statement_forms': case['forms'][:3]}
    return {'viol': viol, 'stats': st, 'shape': shapes, 'nontrivial': True, 'sample': sample}
