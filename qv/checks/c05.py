"""C05 - static errors are rejected at compile time with a located diagnostic (fault enumeration)."""
import random
import re

from .. import cases, rt
from .common import shape_of, V

PROP = 'C05'
LEVEL = 'fault_enumeration'
RULE = ('valid seeds (typed random programs + fixed declarations) x catalogue of static-rule violations x applicable sites '
        '(main top level, inside SUB/FUNCTION bodies, inside nested blocks, inside one-line IF) x configs (O0 and O2-g always, '
        'all six on a rotating sixth) + faulty expressions embedded in larger expressions/statements + the near-miss argument '
        'family (every by-reference location form x argument type x parameter type, arrays, records; the well-typed ones are '
        'controls that must be accepted); one fault at a time; oracle: rejected with the category of the rule and a position on '
        'an acceptable line, same at every config; the unfaulted seed must be accepted; non-trivial = fault compiled at '
        '>=2 configs; distinct = (catalogue entry, site context, seed shape)')
ASSUMPTIONS = ['acceptable lines: the injected line(s); either definition for duplicates; any line from the injected one onward '
               'for unclosed/mismatched blocks', 'categories are those the repository documents in ErrorCode / SyntaxError']
REQUIRED_COUNTERS = ['faults_injected', 'positions_checked', 'seeds_accepted']
CASE_TIMEOUT = 900

# (the first line carries characters that some line-splitting routines take for line ends - form feed, vertical tab,
# the ASCII separators, NEL, LINE SEPARATOR, a bare CR: positions must keep counting '\\n' only)
PRE = ('TYPE zt   \nfa AS INTEGER\t\nfb AS STRING  \t \nEND TYPE\nDIM zarr(3) AS INTEGER\nDIM zrec AS zt\nCONST zconst% = 5\n'
       'CONST zcs$ = "abc"\nzlab1:\n10 zn% = 1\nDIM zdyn(zn% + 2) AS INTEGER\nDIM zdyn2(1 TO zn% + 1, 2) AS LONG\n'
       'CONST zctl$ = "a\x0cb\x1cc\x0b" \' \x1d\x1e \x85 \u2028 \r x\n')
POST = ('SUB zsubi (p%)\nzsublab: p% = 1\nzlate$ = zcs$\nEND SUB\nFUNCTION zfunci% (p%)\nzfunci% = p%\nEND FUNCTION\n')

T = 'compile:TYPE_MISMATCH'
S = 'syntax:syntax'
# (name, lines, accepted categories, line rule, contexts)   contexts: m main, p proc, b block, i one-line IF
CATALOGUE = [
    ('assign-num-to-str', ['zs$ = 1'], [T], 'inj', 'mpbi'),
    ('assign-str-to-num', ['zn% = "a"'], [T], 'inj', 'mpbi'),
    ('assign-num-to-record', ['zrec = 1'], [T], 'inj', 'mb'),
    ('assign-record-to-num', ['zn% = zrec'], [T], 'inj', 'mbi'),
    ('op-num-plus-str', ['zn% = 1 + "a"'], [T], 'inj', 'mpbi'),
    ('op-str-minus-str', ['zs$ = "a" - "b"'], [T], 'inj', 'mpbi'),
    ('op-neg-str', ['zn% = -"a"'], [T], 'inj', 'mpbi'),
    ('op-not-str', ['zn% = NOT "a"'], [T], 'inj', 'mpbi'),
    ('cmp-num-str', ['IF 1 < "a" THEN zn% = 1'], [T], 'inj', 'mpb'),
    ('cond-if-line-str', ['IF "a" THEN zn% = 1'], [T], 'inj', 'mpb'),
    ('cond-if-block-str', ['IF "a" THEN', 'zn% = 1', 'END IF'], [T], 'inj', 'mpb'),
    ('cond-elseif-str', ['IF 0 THEN', 'ELSEIF "a" THEN', 'END IF'], [T], 'inj', 'mpb'),
    ('cond-while-str', ['WHILE "a"', 'WEND'], [T], 'inj', 'mpb'),
    ('cond-do-while-str', ['DO WHILE "a"', 'LOOP'], [T], 'inj', 'mpb'),
    ('cond-do-until-str', ['DO UNTIL "a"', 'LOOP'], [T], 'inj', 'mpb'),
    ('cond-loop-until-str', ['DO', 'LOOP UNTIL "a"'], [T], 'inj', 'mpb'),
    ('cond-loop-while-str', ['DO', 'LOOP WHILE "a"'], [T], 'inj', 'mpb'),
    ('cond-record', ['IF zrec THEN zn% = 1'], [T], 'inj', 'mb'),
    # a literal CONST misused here and used correctly later in the text (positions must not be shared)
    ('cond-while-const-str', ['WHILE zcs$', 'WEND'], [T], 'inj', 'mpb'),
    ('cond-if-const-str', ['IF zcs$ THEN zn% = 1'], [T], 'inj', 'mpb'),
    ('case-const-str', ['SELECT CASE 1', 'CASE zcs$', 'END SELECT'], [T], 'inj', 'mpb'),
    ('for-to-const-str', ['FOR zi% = 1 TO zcs$', 'NEXT'], [T], 'inj', 'mpb'),
    ('arg-type-func-const', ['zn% = zfunci%(zcs$)'], [T], 'inj', 'mpbi'),
    ('for-var-str', ['FOR zs$ = 1 TO 2', 'NEXT'], [T], 'inj', 'mpb'),
    ('for-from-str', ['FOR zi% = "a" TO 2', 'NEXT'], [T], 'inj', 'mpb'),
    ('for-to-str', ['FOR zi% = 1 TO "b"', 'NEXT'], [T], 'inj', 'mpb'),
    ('for-step-str', ['FOR zi% = 1 TO 2 STEP "c"', 'NEXT'], [T], 'inj', 'mpb'),
    ('case-str-for-num', ['SELECT CASE 1', 'CASE "a"', 'END SELECT'], [T], 'inj', 'mpb'),
    ('case-num-for-str', ['SELECT CASE "s"', 'CASE 1', 'END SELECT'], [T], 'inj', 'mpb'),
    ('arg-type-sub', ['zsubi "a"'], [T], 'inj', 'mpbi'),
    ('arg-type-call', ['CALL zsubi("a")'], [T], 'inj', 'mpbi'),
    ('arg-type-func', ['zn% = zfunci%("a")'], [T], 'inj', 'mpbi'),
    ('arg-type-builtin-len', ['zn% = LEN(1)'], [T], 'inj', 'mpbi'),
    ('arg-type-builtin-chr', ['zs$ = CHR$("a")'], [T], 'inj', 'mpbi'),
    ('arg-count-sub-many', ['zsubi 1, 2'], ['compile:ARGUMENT_COUNT_MISMATCH'], 'inj', 'mpbi'),
    ('arg-count-sub-none', ['zsubi'], ['compile:ARGUMENT_COUNT_MISMATCH'], 'inj', 'mpbi'),
    ('arg-count-func-many', ['zn% = zfunci%(1, 2)'], ['compile:ARGUMENT_COUNT_MISMATCH'], 'inj', 'mpbi'),
    ('arg-count-func-none', ['zn% = zfunci%'], ['compile:ARGUMENT_COUNT_MISMATCH'], 'inj', 'mpbi'),
    ('arg-count-builtin', ['zn% = LEN("a", "b")'], ['compile:ARGUMENT_COUNT_MISMATCH'], 'inj', 'mpbi'),
    ('rank-store', ['zarr(1, 2) = 1'], ['compile:WRONG_NUMBER_OF_DIMENSIONS'], 'inj', 'mbi'),
    ('rank-load', ['zn% = zarr(1, 2)'], ['compile:WRONG_NUMBER_OF_DIMENSIONS'], 'inj', 'mbi'),
    # an array dimensioned with run-time bounds still has a fixed number of dimensions
    ('rank-store-dynamic', ['zdyn(1, 2) = 1'], ['compile:WRONG_NUMBER_OF_DIMENSIONS'], 'inj', 'mbi'),
    ('rank-load-dynamic', ['zn% = zdyn(1, 2)'], ['compile:WRONG_NUMBER_OF_DIMENSIONS'], 'inj', 'mbi'),
    ('rank-store-dynamic2', ['zdyn2(1) = 1'], ['compile:WRONG_NUMBER_OF_DIMENSIONS'], 'inj', 'mbi'),
    ('rank-load-dynamic2', ['zn% = zdyn2(1, 2, 3)'], ['compile:WRONG_NUMBER_OF_DIMENSIONS'], 'inj', 'mbi'),
    ('rank-input-dynamic', ['INPUT zdyn(1, 2)'], ['compile:WRONG_NUMBER_OF_DIMENSIONS'], 'inj', 'mb'),
    ('rank-read-static', ['READ zarr(1, 2)'], ['compile:WRONG_NUMBER_OF_DIMENSIONS'], 'inj', 'mb'),
    ('rank-arg-dynamic', ['zsubi zdyn(1, 2)'], ['compile:WRONG_NUMBER_OF_DIMENSIONS'], 'inj', 'mbi'),
    ('label-undef-goto', ['GOTO znolabel'], ['compile:LABEL_NOT_DEFINED'], 'inj', 'mpbi'),
    ('label-undef-gosub', ['GOSUB znolabel'], ['compile:LABEL_NOT_DEFINED'], 'inj', 'mpbi'),
    ('label-undef-restore', ['RESTORE znolabel'], ['compile:LABEL_NOT_DEFINED'], 'inj', 'mbi'),
    ('label-undef-return', ['RETURN znolabel'], ['compile:LABEL_NOT_DEFINED'], 'inj', 'mpbi'),
    ('label-undef-onerror', ['ON ERROR GOTO znolabel'], ['compile:LABEL_NOT_DEFINED'], 'inj', 'mbi'),
    ('label-other-routine', ['GOTO zsublab'], ['compile:LABEL_NOT_DEFINED'], 'inj', 'mbi'),
    ('lineno-undef', ['GOTO 9999'], ['compile:LABEL_NOT_DEFINED'], 'inj', 'mpbi'),
    ('dup-label', ['zlab1: zn% = 2'], ['compile:DUPLICATE_LABEL'], 'dup', 'mb'),
    ('dup-lineno', ['10 zn% = 2'], ['compile:DUPLICATE_LABEL'], 'dup', 'mb'),
    ('dup-dim', ['DIM zarr(5)'], ['compile:DUPLICATE_DEFINITION'], 'dup', 'm'),
    ('dup-dim-twice', ['DIM zarr2(2)', 'DIM zarr2(3)'], ['compile:DUPLICATE_DEFINITION'], 'inj', 'mp'),
    # a second definition of another kind than the first (implicit use, DIM, DIM SHARED, STATIC, CONST, parameter, procedure)
    ('dup-shared-after-implicit', ['zdimp1 = 1', 'DIM SHARED zdimp1'], ['compile:DUPLICATE_DEFINITION'], 'inj', 'm'),
    ('dup-shared-after-dim', ['DIM zdd1 AS LONG', 'DIM SHARED zdd1 AS LONG'], ['compile:DUPLICATE_DEFINITION'], 'inj', 'm'),
    ('dup-dim-after-shared', ['DIM SHARED zdd2', 'DIM zdd2'], ['compile:DUPLICATE_DEFINITION'], 'inj', 'm'),
    ('dup-shared-array-after-dim', ['DIM zdd6(3)', 'DIM SHARED zdd6(3)'], ['compile:DUPLICATE_DEFINITION'], 'inj', 'm'),
    ('dup-dim-after-implicit', ['zdq2 = 1', 'DIM zdq2 AS INTEGER'], ['compile:DUPLICATE_DEFINITION'], 'inj', 'mp'),
    ('dup-const-after-use', ['zdq3 = 1', 'CONST zdq3 = 2'], ['compile:DUPLICATE_DEFINITION'], 'inj', 'mp'),
    ('dup-array-after-implicit-array', ['zdq5(1) = 1', 'DIM zdq5(3)'], ['compile:DUPLICATE_DEFINITION'], 'inj', 'mp'),
    ('dup-static-after-use', ['zdq1 = 1', 'STATIC zdq1'], ['compile:DUPLICATE_DEFINITION'], 'inj', 'p'),
    ('dup-static-twice', ['STATIC zdq8', 'STATIC zdq8'], ['compile:DUPLICATE_DEFINITION'], 'inj', 'p'),
    ('dup-param-dim', ['SUB zdsub4 (a)', 'DIM a', 'END SUB'], ['compile:DUPLICATE_DEFINITION'], 'inj', 'm'),
    ('dup-shared-redimmed-in-sub', ['DIM SHARED zdq7', 'SUB zdsub7', 'DIM zdq7', 'END SUB'], ['compile:DUPLICATE_DEFINITION'], 'inj', 'm'),
    ('dup-var-named-like-sub', ['zsubi = 1'], ['compile:DUPLICATE_DEFINITION'], 'inj', 'mb'),
    ('dup-dim-named-like-function', ['DIM zfunci'], ['compile:DUPLICATE_DEFINITION'], 'inj', 'm'),
    ('dup-const', ['CONST zconst% = 6'], ['compile:DUPLICATE_DEFINITION'], 'dup', 'm'),
    ('dup-sub', ['SUB zsubi', 'END SUB'], ['compile:DUPLICATE_DEFINITION'], 'dup', 'm'),
    ('dup-function', ['FUNCTION zfunci%', 'END FUNCTION'], ['compile:DUPLICATE_DEFINITION'], 'dup', 'm'),
    ('dup-type', ['TYPE zt', 'x AS LONG', 'END TYPE'], ['compile:DUPLICATE_DEFINITION'], 'dup', 'm'),
    ('dup-field', ['TYPE zt2', 'x AS LONG', 'x AS INTEGER', 'END TYPE'], ['compile:DUPLICATE_DEFINITION', S], 'inj', 'm'),
    ('assign-to-const', ['zconst% = 7'], ['compile:DUPLICATE_DEFINITION'], 'inj', 'mbi'),
    ('undef-type', ['DIM zv AS znotype'], ['compile:TYPE_NOT_DEFINED'], 'inj', 'mp'),
    ('undef-field-load', ['zn% = zrec.nofield'], ['compile:ELEMENT_NOT_DEFINED'], 'inj', 'mbi'),
    ('undef-field-store', ['zrec.nofield = 1'], ['compile:ELEMENT_NOT_DEFINED'], 'inj', 'mbi'),
    ('undef-sub', ['znosub 1'], ['compile:SUBPROGRAM_NOT_FOUND'], 'inj', 'mpbi'),
    ('undef-sub-call', ['CALL znosub'], ['compile:SUBPROGRAM_NOT_FOUND'], 'inj', 'mpbi'),
    ('sub-used-as-function', ['zn% = zsubi(1)'], ['compile:DUPLICATE_DEFINITION', 'compile:INVALID_USE_OF_FUNCTION', T], 'inj', 'mpbi'),
    ('function-used-as-sub', ['zfunci% 1'], ['compile:SUBPROGRAM_NOT_FOUND', 'compile:INVALID_USE_OF_FUNCTION'], 'inj', 'mpbi'),
    ('exit-for-outside', ['EXIT FOR'], ['compile:INVALID_EXIT'], 'inj', 'mpi'),
    ('exit-do-outside', ['EXIT DO'], ['compile:INVALID_EXIT'], 'inj', 'mpi'),
    ('exit-sub-outside', ['EXIT SUB'], ['compile:INVALID_EXIT'], 'inj', 'mbi'),
    ('exit-function-outside', ['EXIT FUNCTION'], ['compile:INVALID_EXIT'], 'inj', 'mbi'),
    ('stray-else', ['ELSE'], ['compile:ELSE_WITHOUT_IF', S], 'inj', 'mp'),
    ('stray-elseif', ['ELSEIF 1 THEN'], ['compile:ELSE_WITHOUT_IF', S], 'inj', 'mp'),
    ('stray-else-in-loop', ['FOR zi% = 1 TO 2', 'ELSE', 'NEXT'], ['compile:ELSE_WITHOUT_IF', S], 'inj', 'mpb'),
    ('second-else', ['IF 1 THEN', 'ELSE', 'ELSE', 'END IF'], ['compile:ELSE_WITHOUT_IF', S], 'inj', 'mpb'),
    # (not inside blocks: a site inside a SELECT body would make the CASE legitimate)
    ('stray-case', ['CASE 1'], ['compile:*', S], 'inj', 'mp'),
    ('stray-case-else', ['CASE ELSE'], ['compile:*', S], 'inj', 'mp'),
    ('stray-case-in-loop', ['FOR zi% = 1 TO 2', 'CASE 1', 'NEXT'], ['compile:*', S], 'inj', 'mpb'),
    ('stray-end-if', ['END IF'], [S], 'block', 'mp'),
    ('stray-next', ['NEXT'], [S], 'block', 'mp'),
    ('stray-loop', ['LOOP'], [S], 'block', 'mp'),
    ('stray-wend', ['WEND'], [S], 'block', 'mp'),
    ('stray-end-sub', ['END SUB'], [S], 'block', 'm'),
    ('stray-end-function', ['END FUNCTION'], [S], 'block', 'm'),
    ('stray-end-select', ['END SELECT'], [S], 'block', 'mp'),
    ('stray-end-type', ['END TYPE'], [S], 'block', 'mp'),
    ('unclosed-if', ['IF 1 THEN', 'zn% = 1'], [S, 'compile:BLOCK_MISMATCH'], 'block', 'mpb'),
    ('unclosed-for', ['FOR zi% = 1 TO 2', 'zn% = 1'], [S, 'compile:BLOCK_MISMATCH'], 'block', 'mpb'),
    ('unclosed-while', ['WHILE 1', 'zn% = 1'], [S, 'compile:BLOCK_MISMATCH'], 'block', 'mpb'),
    ('unclosed-do', ['DO', 'zn% = 1'], [S, 'compile:BLOCK_MISMATCH'], 'block', 'mpb'),
    ('unclosed-select', ['SELECT CASE 1', 'CASE 1'], [S, 'compile:BLOCK_MISMATCH'], 'block', 'mpb'),
    ('mismatch-if-next', ['IF 1 THEN', 'zn% = 1', 'NEXT'], [S, 'compile:BLOCK_MISMATCH'], 'block', 'mpb'),
    ('mismatch-for-wend', ['FOR zi% = 1 TO 2', 'zn% = 1', 'WEND'], [S, 'compile:BLOCK_MISMATCH'], 'block', 'mpb'),
    ('mismatch-while-loop', ['WHILE 1', 'LOOP'], [S, 'compile:BLOCK_MISMATCH'], 'block', 'mpb'),
    ('mismatch-do-endif', ['DO', 'END IF'], [S, 'compile:BLOCK_MISMATCH'], 'block', 'mpb'),
    ('do-loop-both-cond', ['DO WHILE 1', 'LOOP UNTIL 2'], ['compile:BLOCK_MISMATCH'], 'inj', 'mpb'),
    ('next-wrong-var', ['FOR zi% = 1 TO 2', 'NEXT zj%'], ['compile:BLOCK_MISMATCH'], 'inj', 'mpb'),
    ('literal-integer-range', ['zn% = 32768%'], [S], 'inj', 'mpbi'),
    ('literal-single-range', ['zn! = 1E+39'], [S], 'inj', 'mpbi'),
    ('literal-hex-range', ['zn& = &HFFFFFFFFF'], [S], 'inj', 'mpbi'),
    ('literal-string-suffix', ['zn% = 1$'], [S], 'inj', 'mpbi'),
    ('literal-double-range', ['zn# = 1D+309'], [S], 'inj', 'mpbi'),
    ('literal-fraction-int-suffix', ['zn% = 1.5%'], [S], 'inj', 'mpbi'),
    ('const-nonconst-var', ['CONST zc2 = zn%'], ['compile:INVALID_CONSTANT'], 'inj', 'mp'),
    ('const-nonconst-call', ['CONST zc3 = RND'], ['compile:INVALID_CONSTANT'], 'inj', 'mp'),
    ('sub-in-sub', ['SUB zsub2', 'SUB zsub3', 'END SUB', 'END SUB'], ['compile:ILLEGAL_IN_SUB'], 'inj', 'm'),
    ('data-in-sub', ['SUB zsub2', 'DATA 1', 'END SUB'], ['compile:ILLEGAL_IN_SUB'], 'inj', 'm'),
    ('type-in-sub', ['SUB zsub2', 'TYPE zt3', 'x AS LONG', 'END TYPE', 'END SUB'], ['compile:ILLEGAL_IN_SUB'], 'inj', 'm'),
    ('shared-in-sub', ['SUB zsub2', 'DIM SHARED zq', 'END SUB'], ['compile:ILLEGAL_IN_SUB'], 'inj', 'm'),
    ('static-outside', ['STATIC zst'], ['compile:ILLEGAL_OUTSIDE_SUB'], 'inj', 'm'),
    ('syntax-dangling-op', ['zn% = 1 +'], [S], 'inj', 'mpb'),
    ('syntax-open-paren', ['zn% = (1'], [S], 'inj', 'mpb'),
    ('syntax-two-exprs', ['PRINT 1 2'], [S], 'inj', 'mpb'),
    ('syntax-double-eq', ['zn% = = 1'], [S], 'inj', 'mpbi'),
]

N_BASE = len(CATALOGUE)
# faulty *expressions* (value kind n/s, category) embedded in larger expressions and statements: the diagnostic must keep
# the rule's category and still point at the line of the statement, wherever in the expression tree the fault sits
EXPR_FAULTS = [
    ('num-plus-str', '(1 + "a")', 'n', [T]), ('neg-str', '(-"a")', 'n', [T]), ('not-str', '(NOT "a")', 'n', [T]),
    ('cmp-num-str', '(1 < "a")', 'n', [T]), ('len-num', 'LEN(1)', 'n', [T]), ('func-arg-str', 'zfunci%("a")', 'n', [T]),
    ('func-args-many', 'zfunci%(1, 2)', 'n', ['compile:ARGUMENT_COUNT_MISMATCH']),
    ('builtin-args-many', 'LEN("a", "b")', 'n', ['compile:ARGUMENT_COUNT_MISMATCH']),
    ('rank', 'zarr(1, 2)', 'n', ['compile:WRONG_NUMBER_OF_DIMENSIONS']),
    ('rank-dynamic', 'zdyn(1, 2)', 'n', ['compile:WRONG_NUMBER_OF_DIMENSIONS']),
    ('no-field', 'zrec.nofield', 'n', ['compile:ELEMENT_NOT_DEFINED']),
    ('literal-range', '32768%', 'n', [S]), ('literal-single', '1E+39', 'n', [S]),
    ('str-minus-str', '("a" - "b")', 's', [T]), ('chr-str', 'CHR$("a")', 's', [T]), ('mid-args', 'MID$("a")', 's', ['compile:ARGUMENT_COUNT_MISMATCH']),
    ('str-plus-num', '("a" + 1)', 's', [T]), ('ucase-num', 'UCASE$(5)', 's', [T]),
]
EXPR_WRAPS = {
    'n': [('first3', ['zn% = {E} + zn% + 2']), ('mid3', ['zn% = zn% + {E} + 2']), ('last3', ['zn% = zn% + 2 + {E}']),
          ('mul4', ['zn% = 2 * {E} * 3 * zn%']), ('and3', ['zn% = zn% AND {E} AND 3']), ('cmp-chain', ['zn% = zn% + {E} < 2 + zn%']),
          ('call-arg', ['zn% = zfunci%(zn% + {E} + 1)']), ('index', ['zn% = zarr(zn% + {E} + 1)']), ('index-store', ['zarr(1 + {E} + 1) = 2']),
          ('print-item', ['PRINT zn%; zn% + {E} + 1; 2']), ('parens', ['zn% = (1 + (zn% + ({E})) + 3)']),
          ('if-cond', ['IF zn% + {E} + 2 THEN zn% = 1']), ('sub-arg', ['zsubi zn% + {E} + 2']),
          ('for-to', ['FOR zi% = 1 TO zn% + {E} + 2', 'NEXT']), ('case-value', ['SELECT CASE zn%', 'CASE zn% + {E} + 2', 'END SELECT']),
          ('while-cond', ['WHILE zn% + {E} + 2', 'WEND']), ('abs-arg', ['zn% = ABS(zn% + {E}) * 2 * 3']),
          ('second-line', ['zn% = 1 : zn% = zn% + {E} + 2'])],
    's': [('first3', ['zs$ = {E} + zs$ + "y"']), ('mid3', ['zs$ = zs$ + {E} + "y"']), ('last3', ['zs$ = zs$ + "y" + {E}']),
          ('print-item', ['PRINT zs$; "x" + {E} + "y"']), ('len-arg', ['zn% = LEN(zs$ + {E} + "y") + 1 + 2']),
          ('cmp', ['IF zs$ + {E} + "y" = "q" THEN zn% = 1']), ('case-value', ['SELECT CASE zs$', 'CASE zs$ + {E} + "y"', 'END SELECT'])],
}
for _fn, _fe, _fk, _fc in EXPR_FAULTS:
    for _wn, _wl in EXPR_WRAPS[_fk]:
        # (zarr, zdyn and zrec are declared in the main program and are not SHARED: inside a procedure the same spelling is a
        # fresh implicit array / a plain name, so those faults exist at module level only)
        _ctx = ('mb' if len(_wl) > 1 else 'mbi') if _fn in ('rank', 'rank-dynamic', 'no-field') else ('mpb' if len(_wl) > 1 else 'mpbi')
        CATALOGUE.append((f'embed:{_fn}:{_wn}', [x.replace('{E}', _fe) for x in _wl], _fc, 'inj', _ctx))


def sites(text):
    """-> list of (line index (0-based) to insert before, context letter)"""
    lines = text.split('\n')
    out = []
    in_proc = False
    depth = 0
    for i, ln in enumerate(lines):
        s = ln.strip()
        u = s.upper()
        if u.startswith(('SUB ', 'FUNCTION ')):
            in_proc = True
            continue
        if u.startswith(('END SUB', 'END FUNCTION')):
            in_proc = False
            continue
        ind = len(ln) - len(ln.lstrip(' '))
        simple = u.startswith('PRINT') or re.match(r'^(LET )?Z\w*[%&!#$]?(\(.*\))?(\.\w+)* = ', u) is not None
        if not simple:
            continue
        if u.startswith(('DIM', 'CONST', 'STATIC')):
            continue
        if in_proc:
            ctx = 'p' if ind <= 2 else 'b'
            if ind > 2:
                continue       # blocks inside procedures: covered by 'p' + 'b' separately
            out.append((i, 'p'))
        else:
            out.append((i, 'm' if ind == 0 else 'b'))
    return out


OPEN_RE = re.compile(r'^(IF .* THEN$|FOR |WHILE |DO$|DO |SELECT CASE |SUB |FUNCTION |TYPE )', re.I)
CLOSE_RE = re.compile(r'^(END IF|NEXT|WEND|LOOP|END SELECT|END SUB|END FUNCTION|END TYPE)', re.I)


def enclosing_openers(lines, upto):
    """1-based line numbers of block openers still open before line index upto."""
    stack = []
    for k, ln in enumerate(lines[:upto]):
        s_ = ln.strip()
        if CLOSE_RE.match(s_):
            if stack:
                stack.pop()
        elif OPEN_RE.match(s_):
            stack.append(k + 1)
    return set(stack)


def gen_cases(tier, seed):
    r = random.Random(seed)
    # a case stays small (a third of the catalogue on one seed program) so that it finishes well inside the per-case
    # watchdog on a loaded machine; the thorough tier gets its depth from 30x more seed programs and 2 sites per entry
    nseeds = 32 if tier == 'quick' else 480
    per_entry = 1 if tier == 'quick' else 2
    cs = []
    n = len(CATALOGUE)
    for si in range(nseeds):
        if True:
            # every base entry appears in >= 10 seeds; a seed carries a third of the base catalogue and (quick) a twelfth /
            # (thorough) a third of the embedded-expression entries
            ents = [e for e in range(N_BASE) if (e + si) % 3 == 0]
            m = 12 if tier == 'quick' else 3
            ents += [e for e in range(N_BASE, n) if (e + si) % m == 0]
        if si % 6 == 0:
            # all six configurations, as three cases of two (shorter cases balance the worker shards better)
            for pair in ([[0, False], [2, True]], [[1, False], [0, True]], [[2, False], [1, True]]):
                cs.append({'seed': seed * 100003 + si, 'per_entry': per_entry, 'cfgs': pair, 'entries': ents, 'rot': si})
        else:
            cs.append({'seed': seed * 100003 + si, 'per_entry': per_entry, 'cfgs': [[0, False], [2, True]], 'entries': ents, 'rot': si})
    from .. import nearmiss
    nn = len(nearmiss.all_programs())
    for lo in range(0, nn, 24):
        cs.append({'nearmiss': True, 'lo': lo, 'hi': min(nn, lo + 24)})
    return cs


def run_nearmiss(case):
    from .. import nearmiss
    progs_ = nearmiss.all_programs()[case['lo']:case['hi']]
    st = {'faults_injected': 0, 'positions_checked': 0, 'seeds_accepted': 0, 'seeds_rejected': 0, 'compilations': 0,
          'entries_hit': [], 'contexts': ['nearmiss'], 'nearmiss_mismatches': 0, 'nearmiss_controls': 0}
    viol = []
    shapes = []
    sample = None
    for tag, text, must_reject, call_line in progs_:
        fam = tag.split('|')[0]
        results = []
        for cfg in [(0, False), (2, True)]:
            cr = rt.compile_src(text, cfg[0], cfg[1])
            st['compilations'] += 1
            results.append((cfg, cr))
        shapes.append('nearmiss|' + tag)
        if len({(cr.status, cr.err_code) for _, cr in results}) > 1:
            viol.append(V(f'C05:config-dependent:nearmiss-{fam}', f'{tag}: outcomes differ between configs: '
                          f'{[(rt.cfg_name(cf), cr.brief()) for cf, cr in results]}', text=text, entry=tag))
            continue
        cfg, cr = results[0]
        if cr.status == 'crash':
            viol.append(V(f'C05:crash:nearmiss-{fam}:{cr.sig}', f'{tag}: {cr.exc}: {cr.msg}', text=text, entry=tag))
            continue
        if not must_reject:
            st['nearmiss_controls'] += 1
            st['seeds_accepted'] += 1 if cr.status == 'ok' else 0
            if cr.status != 'ok':
                viol.append(V(f'C05:valid-rejected:nearmiss-{fam}', f'{tag}: a well-typed call is rejected: {cr.brief()}',
                              text=text, entry=tag))
            continue
        st['nearmiss_mismatches'] += 1
        st['faults_injected'] += 1
        st['entries_hit'] = sorted(set(st['entries_hit']) | {'nearmiss-' + fam})
        if cr.status == 'ok':
            viol.append(V(f'C05:accepted:nearmiss-{fam}', f'{tag}: the argument and the by-reference parameter disagree in type, '
                          f'yet the program is accepted (call on line {call_line})', text=text, entry=tag, line=call_line))
            continue
        cat = f'{cr.status}:{cr.err_code}'
        if cat != T:
            viol.append(V(f'C05:category:nearmiss-{fam}:{cat}', f'{tag}: reported {cat} "{cr.msg}", rule category {T}',
                          text=text, entry=tag))
            continue
        st['positions_checked'] += 1
        if cr.loc is None or not (0 <= cr.loc <= len(text)):
            viol.append(V(f'C05:no-position:nearmiss-{fam}', f'{tag}: diagnostic has position {cr.loc}', text=text))
            continue
        ln = rt.line_of(text, cr.loc)
        if ln != call_line:
            viol.append(V(f'C05:position:nearmiss-{fam}', f'{tag}: the call is on line {call_line}, the diagnostic "{cr.msg}" '
                          f'points at line {ln}', text=text, entry=tag))
        if sample is None:
            sample = {'entry': tag, 'context': 'nearmiss', 'call_line': call_line, 'diagnostic': [cat, cr.msg, ln]}
    return {'viol': viol, 'stats': st, 'shape': shapes, 'nontrivial': bool(shapes), 'sample': sample}


def run_case(case):
    if case.get('nearmiss'):
        return run_nearmiss(case)
    r = random.Random(case['seed'])
    text0, script, meta = cases.source_of({'src': 'gen', 'seed': case['seed'],
                                           'opts': {'max_stmts': 4, 'max_depth': 2, 'gosub': False, 'data': False}})
    # generated programs end their main part with procedures; put PRE first and POST last
    seed_text = PRE + text0 + POST
    st = {'faults_injected': 0, 'positions_checked': 0, 'seeds_accepted': 0, 'seeds_rejected': 0, 'compilations': 0,
          'entries_hit': [], 'contexts': []}
    viol = []
    shapes = []
    cfgs = [tuple(c_) for c_ in case['cfgs']]
    good = []
    for cfg in cfgs:
        c0 = rt.compile_src(seed_text, cfg[0], cfg[1])
        if c0.status == 'ok':
            good.append(cfg)
        else:
            st['seed_config_rejected'] = st.get('seed_config_rejected', 0) + 1
    cfgs = good
    if len(cfgs) < 2:
        st['seeds_rejected'] = 1
        return {'viol': [], 'stats': st, 'shape': None, 'nontrivial': False}
    st['seeds_accepted'] = 1
    lines = seed_text.split('\n')
    S_ = sites(seed_text)
    by_ctx = {}
    for i, c in S_:
        by_ctx.setdefault(c, []).append(i)
    shape = shape_of(seed_text)
    sample = None
    for ei in case['entries']:
        name, flines, cats, lrule, ctxs = CATALOGUE[ei]
        cand = []
        for c in ctxs:
            if c == 'i':
                for i in by_ctx.get('m', [])[:]:
                    cand.append((i, 'i'))
            else:
                for i in by_ctx.get(c, []):
                    cand.append((i, c))
        if not cand:
            continue
        r.shuffle(cand)
        ctx_avail = sorted({c for _, c in cand})
        chosen = []
        for k in range(case['per_entry']):
            want = ctx_avail[(case.get('rot', 0) + ei + k) % len(ctx_avail)]
            pick = next((x for x in cand if x[1] == want and x not in chosen), None)
            if pick:
                chosen.append(pick)
        for i, c in chosen:
            if c == 'i':
                if len(flines) != 1:
                    continue
                inj = [f'IF zn% THEN {flines[0]}']
            else:
                inj = list(flines)
            new = lines[:i] + inj + lines[i:]
            text = '\n'.join(new)
            first = i + 1
            last = i + len(inj)
            st['faults_injected'] += 1
            st['entries_hit'] = sorted(set(st['entries_hit']) | {name})
            st['contexts'] = sorted(set(st['contexts']) | {c})
            shapes.append(f'{name}|{c}|{shape}')
            results = []
            for cfg in cfgs:
                cr = rt.compile_src(text, cfg[0], cfg[1])
                st['compilations'] += 1
                results.append((cfg, cr))
            briefs = {(cr.status, cr.err_code, rt.line_of(text, cr.loc) if cr.loc is not None else None) for _, cr in results}
            ctxname = {'m': 'main', 'p': 'proc', 'b': 'block', 'i': 'ifline'}[c]
            if len({(b[0], b[1]) for b in briefs}) > 1:
                viol.append(V(f'C05:config-dependent:{name}', f'{name} in {ctxname}: outcomes differ between configs: '
                              f'{[(rt.cfg_name(cf), cr.brief()) for cf, cr in results]}', text=text, entry=name))
                continue
            cfg, cr = results[0]
            if cr.status == 'ok':
                viol.append(V(f'C05:accepted:{name}', f'{name} in {ctxname} (line {first}): the faulty program is accepted',
                              text=text, entry=name, line=first))
                continue
            if cr.status == 'crash':
                viol.append(V(f'C05:crash:{name}:{cr.sig}', f'{name} in {ctxname} (line {first}): {cr.exc}: {cr.msg}',
                              text=text, entry=name, line=first))
                continue
            cat = f'{cr.status}:{cr.err_code}'
            okcat = cat in cats or (cr.status == 'compile' and 'compile:*' in cats)
            if not okcat:
                viol.append(V(f'C05:category:{name}:{cat}', f'{name} in {ctxname} (line {first}): reported {cat} '
                              f'"{cr.msg}", rule category {cats}', text=text, entry=name, line=first))
                continue
            st['positions_checked'] += 1
            if cr.loc is None or not (0 <= cr.loc <= len(text)):
                viol.append(V(f'C05:no-position:{name}', f'{name} in {ctxname}: diagnostic has position {cr.loc}', text=text))
                continue
            ln = rt.line_of(text, cr.loc)
            ok = first <= ln <= last
            if lrule == 'dup' and not ok:
                # either definition: the original lives in PRE/POST
                ok = True if any(k in text.split('\n')[ln - 1] for k in ('zlab1', '10 ', 'zarr', 'zconst', 'zsubi', 'zfunci', 'TYPE zt', 'zt')) else False
            if lrule == 'block' and not ok:
                ok = ln >= first or ln in enclosing_openers(new, i)
            if not ok:
                viol.append(V(f'C05:position:{name}', f'{name} in {ctxname}: injected at lines {first}-{last}, diagnostic '
                              f'"{cr.msg}" points at line {ln}: {text.split(chr(10))[ln - 1]!r}', text=text, entry=name))
            if sample is None:
                sample = {'entry': name, 'context': ctxname, 'injected_lines': inj, 'at_line': first,
                          'diagnostic': [cat, cr.msg, ln]}
    return {'viol': viol, 'stats': st, 'shape': shapes, 'nontrivial': bool(shapes), 'sample': sample}
