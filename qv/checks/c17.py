"""C17 - PRINT lays out items, print zones and line ends as QBASIC prescribes."""
import itertools
import random

from .. import rt
from .common import V

PROP = 'C17'
LEVEL = 'exploration'
RULE = ('PRINT statements built from token sequences over items {INTEGER 0/-1/12345, LONG 70000, SINGLE 1.5, DOUBLE -2.5, '
        '"", "a", 13/14/15-char strings} and separators {; ,}: every valid sequence of <=4 tokens (quick) / <=5 tokens and '
        'sampled longer ones (thorough), each rendered as literals, variables, expressions/function results and inside '
        'SUB/loop/one-line IF, at all 6 configs on a rotating basis; oracle = reference layout function; non-trivial = '
        'sequence with >=1 item or separator; distinct = (token sequence, rendering)')
ASSUMPTIONS = ['number text for the alphabet values is beyond doubt (0, -1, 12345, 70000, 1.5, -2.5); C16 judges number text in general',
               'zones are 14 columns, computed per statement as the property states (no 80-column wrap)']
REQUIRED_COUNTERS = ['statements_checked', 'single_call_statements']
EXHAUSTIVE = {'quick': True, 'thorough': True}

ITEMS = {
    'i0': ('%', 0, '0'), 'im1': ('%', -1, '-1'), 'i12345': ('%', 12345, '12345'), 'l70000': ('&', 70000, '70000'),
    's1.5': ('!', 1.5, '1.5'), 'd-2.5': ('#', -2.5, '-2.5'), 'e': ('$', '', ''), 'a': ('$', 'a', 'a'),
    's13': ('$', 'ABCDEFGHIJKLM', None), 's14': ('$', 'ABCDEFGHIJKLMN', None), 's15': ('$', 'ABCDEFGHIJKLMNO', None),
}
SEPS = [';', ',']


def ref_layout(tokens):
    buf = ''
    for t in tokens:
        if t == ';':
            continue
        if t == ',':
            buf += ' ' * (14 - len(buf) % 14)
            continue
        ty, v, txt = ITEMS[t]
        if ty == '$':
            buf += v
        else:
            buf += ('' if v < 0 else ' ') + txt + ' '
    if not tokens or tokens[-1] not in SEPS:
        buf += '\r\n'
    return buf


def valid(seq):
    for a, b in zip(seq, seq[1:]):
        if a not in SEPS and b not in SEPS:
            return False
    return True


def sequences(maxlen, alphabet):
    toks = list(alphabet) + SEPS
    for n in range(0, maxlen + 1):
        for seq in itertools.product(toks, repeat=n):
            if valid(seq):
                yield list(seq)


def lit(t):
    ty, v, _ = ITEMS[t]
    if ty == '$':
        return f'"{v}"'
    if ty == '%':
        return str(v)
    if ty == '&':
        return str(v)
    if ty == '!':
        return repr(v)
    return repr(v) + '#'


VARNAME = {t: 'zv' + str(i) + ITEMS[t][0] for i, t in enumerate(ITEMS)}


def expr_form(t):
    ty, v, _ = ITEMS[t]
    if ty == '$':
        if v == '':
            return 'LEFT$("xyz", 0)'
        if len(v) == 1:
            return 'CHR$(97)'
        return f'LEFT$("{v}zz", {len(v)})'
    if ty == '%':
        return {0: '(5 - 5)', -1: '(1 - 2)', 12345: '(12340 + 5)'}[v]
    if ty == '&':
        return '(35000 * 2)'
    if ty == '!':
        return '(3 / 2)'
    return '(zfd#(5) / 2#)'


def render_stmt(seq, how):
    out = 'PRINT'
    for t in seq:
        if t in SEPS:
            out += t
        else:
            out += ' ' + (lit(t) if how == 'lit' else VARNAME[t] if how == 'var' else expr_form(t))
    return out


def program(stmts, how, place):
    lines = []
    if how == 'var' or True:
        for t, n in VARNAME.items():
            lines.append(f'{n} = {lit(t)}')
    body = [render_stmt(s, how) for s in stmts]
    procs = 'FUNCTION zfd# (x#)\nzfd# = -x#\nEND FUNCTION\n'
    if place == 'main':
        lines += body
    elif place == 'loop':
        lines.append('FOR zk = 1 TO 1')
        lines += body
        lines.append('NEXT')
    elif place == 'ifline':
        lines += [f'IF zv0% = 0 THEN {b}' for b in body]
    elif place == 'sub':
        lines.append('zsb')
        sub = ['SUB zsb']
        for t, n in VARNAME.items():
            sub.append(f'{n} = {lit(t)}')
        sub += body + ['END SUB']
        procs += '\n'.join(sub) + '\n'
    return '\n'.join(lines) + '\n' + procs


def gen_cases(tier, seed):
    r = random.Random(seed)
    if tier == 'quick':
        seqs = list(sequences(4, ['i0', 'im1', 'l70000', 's1.5', 'e', 'a', 's13', 's14', 's15']))
        extra = []
        toks = list(ITEMS) + SEPS
        while len(extra) < 1500:
            s = [r.choice(toks) for _ in range(r.randint(5, 9))]
            if valid(s):
                extra.append(s)
        seqs += extra
    else:
        seqs = list(sequences(5, ['im1', 'i12345', 'd-2.5', 'e', 'a', 's13', 's14', 's15']))
        toks = list(ITEMS) + SEPS
        extra = []
        while len(extra) < 20000:
            s = [r.choice(toks) for _ in range(r.randint(6, 12))]
            if valid(s):
                extra.append(s)
        seqs += extra
    r.shuffle(seqs)
    B = 60
    cs = []
    hows = ['lit', 'var', 'expr']
    places = ['main', 'loop', 'ifline', 'sub']
    for i in range(0, len(seqs), B):
        k = i // B
        cs.append({'seqs': seqs[i:i + B], 'how': hows[k % 3], 'place': places[(k // 3) % 4],
                   'cfg': list(rt.CONFIGS6[k % 6]), 'second': [hows[(k + 1) % 3], places[(k + 1) % 4], list(rt.CONFIGS6[(k + 2) % 6])]})
    return cs


def run_one(seqs, how, place, cfg, st, viol, shapes):
    if place == 'ifline':
        # a PRINT ending in a separator cannot directly precede anything in a one-line IF; fine here (no ELSE)
        pass
    text = program(seqs, how, place)
    c = rt.compile_src(text, cfg[0], cfg[1])
    if c.status != 'ok':
        viol.append(V(f'C17:rejected:{c.status}', f'generated PRINT program not accepted: {c.brief()} {c.msg}', text=text[:1500]))
        return
    mod = rt.load_module(c.modbytes)
    r = rt.run_module(mod, {}, max_ticks=200000)
    if r.outcome[0] != 'halt' and r.outcome[0] != 'end_of_code':
        viol.append(V(f'C17:run-outcome:{r.outcome}', f'{r.outcome} {r.crash_tb}', text=text[:1500]))
        return
    outs = [e for e in r.history if e[0] in ('out', 'print')]
    # each PRINT statement = one 'print' event followed by its 'out' events
    groups = []
    for e in outs:
        if e[0] == 'print':
            groups.append([])
        elif groups:
            groups[-1].append(e[1])
    if len(groups) != len(seqs):
        viol.append(V('C17:statement-count', f'{len(groups)} PRINT executions for {len(seqs)} statements', text=text[:1500]))
        return
    for seq, g in zip(seqs, groups):
        st['statements_checked'] += 1
        shapes.append(f"{' '.join(seq)}|{how}|{place}")
        if len(g) == 1:
            st['single_call_statements'] += 1
        got = ''.join(g)
        want = ref_layout(seq)
        if got != want:
            kinds = sorted({('sep,' if t == ',' else 'sep;' if t == ';' else ITEMS[t][0]) for t in seq})
            what = 'newline' if got.rstrip('\r\n') == want.rstrip('\r\n') else 'layout'
            viol.append(V(f'C17:{what}', f'PRINT {" ".join(seq)!r} [{how}/{place}/{rt.cfg_name(tuple(cfg))}]: '
                          f'got {got!r}, reference {want!r}', seq=seq, how=how, place=place, cfg=cfg))


def run_case(case):
    st = {'statements_checked': 0, 'single_call_statements': 0}
    viol = []
    shapes = []
    run_one(case['seqs'], case['how'], case['place'], tuple(case['cfg']), st, viol, shapes)
    h2, p2, c2 = case['second']
    run_one(case['seqs'][:20], h2, p2, tuple(c2), st, viol, shapes)
    sample = {'tokens': case['seqs'][0], 'statement': render_stmt(case['seqs'][0], case['how']),
              'reference_text': ref_layout(case['seqs'][0])}
    return {'viol': viol, 'stats': st, 'shape': shapes, 'nontrivial': True, 'sample': sample}
