"""C02 - optimisation and compile-time evaluation never change behaviour.

Three monitors, one verdict:
  level   : same source at levels 0..3 -> acceptance, device history, outcome (and trap line with -g)
  grid    : PRINT <constant expression> over operator x type pair x boundary values; O0 typed value/trap
            (observed at `io terminal,print`) must be reproduced at levels 1..3
  window  : instruction windows spliced into a compiled module, executed on the real CPU before and
            after QvmCode.optimize(): same stack (types+values), cells, trap, control transfer
"""
import contextlib
import copy
import io
import itertools
import math
import random

from .. import cases, diff, rt
from .common import shape_of, gen_cases_corpus, V

PROP = 'C02'
LEVEL = 'exploration'
RULE = ('level: one source x levels 0,1,2,3 (x -g for trap lines); grid: PRINT/CONST/DIM wrappers of every '
        'binary/unary operator x ordered operand type pair x boundary values (sampled in quick, whole grid in '
        'thorough); window: all instruction windows of length <=2 (quick) / <=3 (thorough) over the foldable '
        'alphabet; non-trivial = O0 run produced a typed value or a trap / window executed >=1 instruction; '
        'distinct = shape hash, (op,type pair,value pair), window token tuple')
ASSUMPTIONS = ['level 0 is the reference behaviour', 'windows are executed from the state reached after a '
               'fixed prologue (two locals, one global initialised)']
REQUIRED_COUNTERS = ['level_runs_compared', 'grid_exprs', 'windows_wellformed', 'static_bounds_compared']
SHARD_TIMEOUT = {'quick': 900, 'thorough': 7200}

# ----------------------------------------------------------------------------- grid
IVALS = [0, 1, 2, 3, 7, 255, 16384, 32766, 32767]
LVALS = [0, 1, 2, 3, 32768, 65536, 46341, 2147483646, 2147483647]
SVALS = ['0!', '0.5', '1.5', '2.5', '1!', '3!', '0.1', '32767.5', '16777216!', '3.4E+38', '1E-38', '2.147484E+9', '1E+20']
DVALS = ['0#', '0.5#', '1.5#', '2.5#', '1#', '3#', '0.1#', '32768.5#', '2147483647.5#', '4D+9', '1D+308', '1D-308', '1D+20']
STRS = ['""', '"a"', '"b"', '"ab"', '"A"', '"a "', '" "', '"~"', '"\u00e9"', '"\u00e2"', '"\u00ff"', '"\u00c7"', '"a\u00e9"']   # incl. cp437 letters whose code-page order differs from their Unicode order
BINOPS = ['+', '-', '*', '/', '\\', 'MOD', '^', '=', '<>', '<', '>', '<=', '>=', 'AND', 'OR', 'XOR', 'EQV', 'IMP']
UNOPS = ['-', 'NOT', '+']


def operands(t):
    if t == '%':
        base = [f'{v}%' for v in IVALS]
    elif t == '&':
        base = [f'{v}&' for v in LVALS]
    elif t == '!':
        base = SVALS
    elif t == '#':
        base = DVALS
    else:
        return STRS
    out = list(base)
    out += [f'(-{b})' for b in base if not b.startswith('0') or '.' in b]
    return out


def grid_space():
    """Yield (op, ta, tb, a, b) for the whole grid (strings only for + and comparisons)."""
    for op in BINOPS:
        for ta, tb in itertools.product('%&!#', repeat=2):
            for a in operands(ta):
                for b in operands(tb):
                    if op == '^' and ta in '%&' and tb in '%&':
                        # integer ** huge integer does not terminate in the VM (Python big-int power):
                        # the O0 baseline itself never finishes; that hang is C06/C07's finding
                        bv = int(b.strip('()-%&'))
                        if bv > 64:
                            continue
                    yield (op, ta, tb, a, b)
        if op in ('+', '=', '<>', '<', '>', '<=', '>='):
            for a in STRS:
                for b in STRS:
                    yield (op, '$', '$', a, b)
    for op in UNOPS:
        for ta in '%&!#':
            for a in operands(ta):
                yield (op, ta, None, a, None)
    # builtin calls whose arguments are all constants (a compiler may evaluate them itself: value and type must be those of
    # the run-time library)
    for e in builtin_const_calls():
        yield ('call', e.split('(')[0], None, e, None)


BC_NUMS = ['0', '1', '-1', '2.5', '-2.5', '3.5', '-3.5', '32767', '-32768', '32768', '2147483647', '0.1', '0.1#', '9.9000007E+09',
           '-9.9000007E+09', '1E+10', '1.5!', '1D-300', '123456789.123456789#', '16777217', '.000977', '1E-3', '8.6000003E+09',
           '0.5', '-0.5', '1.5#', '70000', '65']
BC_VALTXT = ['"0.1234567890123456"', '" 0.1234567890123456"', '"1D5"', '"1e5"', '"12abc"', '"&H10"', '""', '" 42 "', '"1.5"', '"-7"',
             '"9.9000007E+09"', '"123456789012"', '"1E-3"', '".1"', '"32768"', '"2147483648"', '"1e40"', '"abc"']
BC_STRS = ['""', '"a"', '"Hello World"', '"  x  "', '"\u00e9"']


def builtin_const_calls():
    out = []
    for v in BC_NUMS:
        for f in ('ABS', 'CINT', 'CLNG', 'INT', 'STR$', 'LEN(STR$', 'VAL(STR$'):
            out.append(f'{f}({v})' + (')' if '(' in f else ''))
    for v in ('0', '1', '65', '97', '255', '256', '-1', '65.5', '32'):
        out += [f'CHR$({v})', f'ASC(CHR$({v}))', f'LEN(SPACE$({v}))', f'STRING$({v}, 66)', f'STRING$(2, {v})', f'LEFT$("hello", {v})',
                f'RIGHT$("hello", {v})', f'MID$("hello", {v})', f'MID$("hello", 2, {v})', f'INSTR({v}, "hello", "l")']
    for t in BC_VALTXT:
        out += [f'VAL({t})', f'LEN({t})', f'VAL({t}) + 0', f'CINT(VAL({t}))']
    for t in BC_STRS:
        out += [f'LEN({t})', f'ASC({t})', f'UCASE$({t})', f'LCASE$({t})', f'LTRIM$({t})', f'RTRIM$({t})', f'LEN(LTRIM$({t}))',
                f'INSTR({t}, "l")', f'INSTR("Hello", {t})', f'STRING$(2, {t})', f'{t} + UCASE$({t})', f'LEFT$({t}, 3) + "|"']
    return out


def grid_text(g, wrap):
    op, ta, tb, a, b = g
    if op == 'call':
        e = a
    elif b is None:
        e = f'{op} {a}'
    else:
        e = f'{a} {op} {b}'
    if wrap == 'print':
        return f'PRINT {e}\n'
    if wrap == 'const':
        return f'CONST zc = {e}\nPRINT zc\n'
    if wrap == 'paren':
        return f'PRINT ({e})\n'
    if wrap == 'nested':
        if ta == '$':
            return f'zs$ = "q"\nPRINT LEN(zs$) * 0 + ({e})\n'
        return f'zx = 1\nPRINT zx * 0 + ({e})\n'
    raise ValueError(wrap)


def obs_value(o):
    """What a tiny PRINT program did: typed value or outcome."""
    if o['status'] != 'ok':
        return ['compile-' + o['status'], o['brief'][1] if len(o['brief']) > 1 else None]
    if 'hist' not in o:
        return ['load-crash']
    pr = [e for e in o['hist'] if e[0] == 'print']
    val = None
    if pr and pr[-1][1]:
        it = pr[-1][1][0]
        if isinstance(it, list) and it[0] == 'v':
            v = it[2]
            if isinstance(v, float):
                v = 'nan' if math.isnan(v) else ('0.0' if v == 0 else repr(v))
            val = [it[1], v]
    return [o['outcome'], val]


def run_grid(case):
    viol = []
    st = {'grid_exprs': 0, 'grid_traps_O0': 0, 'grid_values_O0': 0, 'grid_rejected_O0': 0}
    shapes = []
    sample = None
    for g, wrap in case['items']:
        g = tuple(g)
        text = grid_text(g, wrap)
        o0 = obs_value(diff.observe(text, (0, False), {}, max_ticks=2000))
        st['grid_exprs'] += 1
        if o0[0] and isinstance(o0[0], list) and o0[0][0] == 'trap':
            st['grid_traps_O0'] += 1
        elif isinstance(o0[0], str):
            st['grid_rejected_O0'] += 1
        else:
            st['grid_values_O0'] += 1
        shapes.append(f'{g}|{wrap}')
        levels = case.get('levels', [1, 2])
        for L in levels:
            oL = obs_value(diff.observe(text, (L, False), {}, max_ticks=2000))
            if oL != o0:
                op, ta, tb = g[0], g[1], g[2] or ''
                if isinstance(oL[0], str) or isinstance(o0[0], str):
                    kind = f'acceptance:{o0[0] if isinstance(o0[0], str) else "ok"}->{oL[0] if isinstance(oL[0], str) else "ok"}'
                    if isinstance(oL[0], str) and oL[0] == 'compile-crash':
                        kind += ':' + str(oL[1])
                elif o0[0] != oL[0]:
                    kind = f'outcome:{o0[0][0]}->{oL[0][0]}'
                elif o0[1] and oL[1] and o0[1][0] != oL[1][0]:
                    kind = 'type'
                else:
                    kind = 'value'
                viol.append(V(f'C02:grid:{op}:{ta}{tb}:{kind}',
                              f'{text.strip()!r}: O0 -> {o0}, O{L} -> {oL}', text=text, level=L))
                break
        if sample is None:
            sample = {'grid_expr': text, 'O0': o0}
    return {'viol': viol, 'stats': st, 'shape': shapes, 'nontrivial': True, 'sample': sample}


# ----------------------------------------------------------------------------- level differential
CONST_HEAVY = [
    "CONST a% = 7\nCONST b% = a% * 2\nDIM x(b%) AS INTEGER\nPRINT UBOUND(x); a% + b%\n",
    "CONST s$ = \"ab\" + \"cd\"\nPRINT s$; LEN(s$)\n",
    "CONST a$ = \"x\"\nCONST b$ = a$ + \"y\"\nCONST c$ = b$\nPRINT b$; a$; c$; b$ + c$\n",
    "CONST p = 2\nCONST q = p + 1\nPRINT q\nzs\nSUB zs\nCONST p = 10\nCONST r = q * p\nPRINT q; p; r\nEND SUB\n",
    "CONST k& = 70000 + 1\nPRINT k& * 2\nIF k& > 5 THEN PRINT \"big\"\n",
    "IF 1 THEN PRINT \"t\" ELSE PRINT \"f\"\nIF 0 THEN PRINT \"t\" ELSE PRINT \"f\"\n",
    "WHILE 0\nPRINT 1\nWEND\nDO WHILE 0\nLOOP\nPRINT 2\n",
    "x% = 3\nx% = x%\nPRINT x%\nx% = x% + 0\nPRINT x%\n",
    "PRINT 1 + 2 * 3 - 4 / 2; 7 \\ 2; 7 MOD 3; 2 ^ 3\n",
    "PRINT -7 \\ 2; -7 MOD 3; 7 \\ -2; 7 MOD -3\n",
    "PRINT 1.5 < 1.6; 1.5 = 1.5; 2.5 > 2.4\n",
    "PRINT \"a\" < \"b\"; \"a\" = \"a\"; \"b\" <> \"b\"\n",
    "PRINT 2000000000 + 2000000000\n",
    "x = -1E+20\nPRINT x\n",
    "PRINT 32767 + 1\n",
    "PRINT 1 / 0\n",
    "PRINT 5 \\ 0\n",
    "PRINT CINT(2.5); CINT(3.5); CLNG(-2.5)\n",
    "x% = 2.5\ny% = 3.5\nPRINT x%; y%\n",
    "DIM a(1 + 2, 2 * 2) AS LONG\nPRINT UBOUND(a, 1); UBOUND(a, 2)\n",
    "DIM a(2 TO 2.5 + 2.5)\nPRINT LBOUND(a); UBOUND(a)\n",
    "PRINT NOT 0; NOT -1; NOT 1.5; -(-5)\n",
    "PRINT 3 AND 5; 3 OR 5; 3 XOR 5; 3 EQV 5; 3 IMP 5\n",
    "PRINT 100000 * 100000\n",
    "PRINT 3.4E+38 * 10\n",
    "CONST c = 1 / 3\nPRINT c\n",
    "CONST c# = 1# / 3#\nPRINT c#\n",
    "f 1 + 2\nSUB f (x%)\nPRINT x%\nEND SUB\n",
    "GOTO a\nPRINT 1\na: PRINT 2\nEND\nPRINT 3\n",
    "x% = 1\nGOTO b\nb: GOTO c\nc: PRINT x%\n",
    "FOR i% = 1 TO 2 + 1\nPRINT i%;\nNEXT\n",
    "SELECT CASE 2 + 3\nCASE 5\nPRINT \"five\"\nCASE ELSE\nPRINT \"other\"\nEND SELECT\n",
]
# every ordered pair of the grid's string constants under every comparison (the folder and the VM implement string order
# separately), literal against literal and constant against constant
for _op in ('=', '<>', '<', '>', '<=', '>='):
    _t = ''
    for _a in STRS:
        _t += 'PRINT ' + '; '.join(f'{_a} {_op} {_b}' for _b in STRS) + '\n'
    CONST_HEAVY.append(_t)
_t = ''.join(f'CONST zc{_i}$ = {_a}\n' for _i, _a in enumerate(STRS))
for _i in range(len(STRS)):
    _t += 'PRINT ' + '; '.join(f'zc{_i}$ < zc{_j}$; zc{_i}$ >= zc{_j}$' for _j in range(len(STRS))) + '\n'
CONST_HEAVY.append(_t)
_t = ''.join(f'zv{_i}$ = {_a}\n' for _i, _a in enumerate(STRS))
for _i, _a in enumerate(STRS):
    _t += 'PRINT ' + '; '.join(f'{_a} < zv{_j}$; zv{_j}$ <= {_a}' for _j in range(len(STRS))) + '\n'
CONST_HEAVY.append(_t)


def run_level(case):
    text, script, meta = cases.source_of(case)
    viol = []
    st = {'level_sources': 1, 'level_runs_compared': 0, 'level_rejected_all': 0, 'events': 0}
    nontrivial = False
    for g in ((False, True) if case.get('both_g') else (False,)):
        base = diff.observe(text, (0, g), script, max_ticks=40000)
        for L in (1, 2, 3):
            o = diff.observe(text, (L, g), script, max_ticks=40000)
            tagg = 'g' if g else ''
            if o['brief'][:2] != base['brief'][:2]:
                sig = f"C02:level:acceptance:{base['brief'][0]}->{o['brief'][0]}"
                if o['status'] == 'crash':
                    sig += ':' + str(o['sig'])
                elif base['status'] == 'crash':
                    sig += ':' + str(base['sig'])
                viol.append(V(sig, f"O0{tagg} {base['brief']} vs O{L}{tagg} {o['brief']}", tb=o.get('tb')))
                continue
            if base['status'] != 'ok':
                st['level_rejected_all'] += 1
                continue
            if 'hist' not in o or 'hist' not in base:
                viol.append(V('C02:level:load-crash', f"O{L}: {o.get('load_crash')} {base.get('load_crash')}"))
                continue
            st['level_runs_compared'] += 1
            st['events'] += len(base['hist'])
            if base['hist'] or base['outcome'][0] == 'trap':
                nontrivial = True
            d = diff.cmp_runs(base, o)
            if d:
                kind = 'history' if d.startswith('history') else 'outcome'
                viol.append(V(f'C02:level:{kind}', f'O0{tagg} vs O{L}{tagg}: {d}'))
            elif g and base['outcome'][0] == 'trap' and base['trap_line'] != o['trap_line']:
                viol.append(V('C02:level:trap-line', f"trap line O0g {base['trap_line']} vs O{L}g {o['trap_line']}"))
    sample = {'source': text[:500], 'levels': [0, 1, 2, 3]} if nontrivial and case['src'] != 'repo' else None
    return {'viol': viol, 'stats': st, 'shape': shape_of(text), 'nontrivial': nontrivial, 'sample': sample}


# ----------------------------------------------------------------------------- peephole windows
WVALS = {'%': [0, 1, -1, 3, 6, 32767, -32768], '&': [0, 1, -1, 3, 65536, 2147483647, -2147483648],
         '!': [0.0, 0.5, 1.5, 2.5, -2.5, 3.0, 1e20, 3.4e38], '#': [0.0, 0.5, 1.5, 2.5, -2.5, 3.0, 1e20, 1e308]}
WVALS_SMALL = {'%': [0, 3, -1, 32767], '&': [0, 3, 2147483647], '!': [0.5, 2.5, 3.4e38], '#': [0.5, 2.5, 1e308]}
BINS = ['add', 'sub', 'mul', 'div', 'and', 'or', 'xor', 'eqv', 'imp', 'idiv', 'mod', 'exp']


def window_alphabet(small=False):
    vals = WVALS_SMALL if small else WVALS
    toks = []
    for t, vs in vals.items():
        for v in vs:
            toks.append((f'push{t}', v))
    for s, d in itertools.permutations('%&!#', 2):
        toks.append((f'conv{s}{d}',))
    toks += [('neg',), ('not',)]
    toks += [(b,) for b in BINS]
    toks += [('readl%', 'zx%'), ('storel', 'zx%'), ('readl%', 'zy%'), ('storel', 'zy%'),
             ('readg%', 'zg%'), ('storeg', 'zg%')]
    toks += [('jmp', 'Lend'), ('jz', 'Lend'), ('ret',), ('halt',), ('_label', 'Lx'), ('pop',),
             ('readl&', 'zl&'), ('storel', 'zl&')]
    return toks


_base = {}


def base_code():
    if 'code' not in _base:
        src = "DIM SHARED zg%\nzg% = 11\nzx% = 22\nzy% = 33\nzl& = 44\nzgs$ = \"guard\"\n"
        c = rt.compile_src(src, 0, False, want_bytes=False)
        assert c.status == 'ok', c.msg
        _base['code'] = c.code
    return _base['code']


def exec_window(window, optimize, via_jump):
    from qbee.qvm_codegen import QvmInstr
    code = copy.copy(base_code())
    instrs = list(code._instrs)
    # find the final 'ret' of main: last instruction
    assert instrs[-1].final[0] == 'ret'
    # a STRING guard below the window: a window that pops what it did not push (e.g. `ret`, which would
    # consume the return address) hits it and is recognised as ill-formed by the TYPE_MISMATCH it causes
    pre = [QvmInstr('push$', '"guard"')]
    if via_jump:
        pre += [QvmInstr('push%', 9), QvmInstr('push%', 0), QvmInstr('jz', 'Lx')]
    w = [QvmInstr(*t) for t in window]
    post = [QvmInstr('push%', 111), QvmInstr('_label', 'Lend'), QvmInstr('halt')]
    if not any(t == ('_label', 'Lx') for t in window):
        post = post + [QvmInstr('_label', 'Lx'), QvmInstr('halt')]
    code._instrs = instrs[:-1] + pre + w + post + [instrs[-1]]
    res = {}
    try:
        with contextlib.redirect_stdout(io.StringIO()):
            if optimize:
                code.optimize()
            b = bytes(code)
    except Exception as e:  # noqa: BLE001
        return {'asm': 'crash:' + rt.crash_sig(e)}
    mod = rt.load_module(b)
    wild = []

    def watch(cpu_, n_):
        if not 0 <= cpu_.pc <= len(mod.code):
            wild.append(cpu_.pc)
    r = rt.run_module(mod, {}, max_ticks=300, keep=True, on_tick=watch)
    cpu = r.cpu
    def cv(c):
        if c is None:
            return None
        v = c.value
        if isinstance(v, float):
            v = '0.0' if v == 0 else repr(v)
        elif not isinstance(v, (int, str)):
            v = type(v).__name__
        return [c.type.name, v]
    res['outcome'] = r.outcome
    res['stack'] = [cv(c) for c in cpu.stack]
    fr = cpu.cur_frame
    res['frame'] = [cv(c) for c in fr.cells] if fr is not None else None
    res['globals'] = [cv(c) for c in cpu.globals_segment.cells]
    res['n_instr'] = r.ticks
    # the window must leave alone what lies below it (main's return address and the guard), and control must stay inside
    # the code section; otherwise it is not something the compiler can emit and has no behaviour to preserve
    res['escaped'] = bool(wild) or len(res['stack']) < 2 or res['stack'][1] != ['STRING', 'guard']
    return res


def run_windows(case):
    viol = []
    st = {'windows': 0, 'windows_changed_by_optimize': 0, 'window_traps': 0}
    shapes = []
    sample = None
    for w, via in case['items']:
        w = [tuple(t) for t in w]
        st['windows'] += 1
        try:
            with rt.time_limit(4):
                a = exec_window(w, False, via)
        except rt.TimeLimit:
            st['windows_nonterminating_unoptimised'] = st.get('windows_nonterminating_unoptimised', 0) + 1
            continue
        try:
            with rt.time_limit(8):
                b = exec_window(w, True, via)
        except rt.TimeLimit:
            b = {'asm': 'hang'}
        shapes.append(str(w) + ('J' if via else ''))
        if 'asm' in a:
            # the unoptimised window itself cannot be assembled (e.g. value does not fit): skip
            st['windows_unassemblable'] = st.get('windows_unassemblable', 0) + 1
            continue
        oc = a.get('outcome', [''])
        if oc[0] in ('crash', 'tick_budget') or (oc[0] == 'trap' and oc[1] in rt.MACHINE_FAULTS):
            # not a window compiler-produced, well-typed code can contain: its unoptimised execution is
            # already a machine fault, so there is no defined behaviour to preserve
            st['windows_illformed_skipped'] = st.get('windows_illformed_skipped', 0) + 1
            continue
        if a.get('escaped'):
            st['windows_illformed_skipped'] = st.get('windows_illformed_skipped', 0) + 1
            st['windows_escaping_skipped'] = st.get('windows_escaping_skipped', 0) + 1
            continue
        st['windows_wellformed'] = st.get('windows_wellformed', 0) + 1
        if oc[0] == 'trap':
            st['window_traps'] += 1
        ca = {k: v for k, v in a.items() if k not in ('n_instr', 'escaped')}
        cb = {k: v for k, v in b.items() if k not in ('n_instr', 'escaped')}
        if a.get('n_instr') != b.get('n_instr'):
            st['windows_changed_by_optimize'] += 1
        if ca != cb:
            ops = [t[0].rstrip('%&!#') if t[0].startswith('push') else t[0] for t in w]
            tys = ''.join(t[0][-1] for t in w if t[0].startswith('push'))
            if 'asm' in b:
                kind = 'asm-' + b['asm']
            elif a['outcome'] != b['outcome']:
                kind = f"outcome:{a['outcome'][0]}->{b['outcome'][0]}"
            elif a['stack'] != b['stack']:
                kind = 'stack-type' if [x and x[0] for x in a['stack']] != [x and x[0] for x in b['stack']] else 'stack-value'
            else:
                kind = 'cells'
            viol.append(V(f"C02:window:{'+'.join(ops)}:{tys}:{kind}",
                          f'window {w} via_jump={via}: unoptimised {ca} vs optimised {cb}', window=w))
        if sample is None and st['windows'] > 3:
            sample = {'window': w, 'unoptimised': a, 'optimised': b}
    return {'viol': viol, 'stats': st, 'shape': shapes, 'nontrivial': True, 'sample': sample}


# ----------------------------------------------------------------------------- cases
def gen_cases(tier, seed):
    r = random.Random(seed)
    cs = []
    # level differential
    n = 60 if tier == 'quick' else 1200
    for c in gen_cases_corpus(n, seed, opts={'max_stmts': 8}, with_repo=True):
        c['kind'] = 'level'
        cs.append(c)
    for i in range(0, len(cs), 7):
        cs[i]['both_g'] = True
    from .common import shape_cases
    for c in shape_cases(45 if tier == 'quick' else None, seed):
        c['kind'] = 'level'
        c['both_g'] = True
        cs.append(c)
    for i, t in enumerate(CONST_HEAVY):
        cs.append({'kind': 'level', 'src': 'text', 'text': t, 'seed': i, 'both_g': True})
    nb = len(bound_programs())
    for lo in range(0, nb, 4):
        cs.append({'kind': 'bounds', 'lo': lo, 'hi': min(nb, lo + 4)})
    # grid
    space = list(grid_space())
    if tier == 'quick':
        # every operator x type-pair cell once, plus a seeded sample
        cells = {}
        for g in space:
            cells.setdefault((g[0], g[1], g[2]), []).append(g)
        chosen = [r.choice(v) for v in cells.values()]
        chosen += r.sample(space, 2200)
        chosen += [g for g in space if g[0] == 'call'][seed % 2::2]      # a rotating half of the constant-argument calls
        items = [(g, 'print') for g in chosen]
        items += [(g, w) for g in r.sample(space, 300) for w in ('const',)]
        items += [(g, 'nested') for g in r.sample(space, 200)]
    else:
        items = [(g, 'print') for g in space]
        items += [(g, 'const') for g in r.sample(space, 6000)]
        items += [(g, 'nested') for g in r.sample(space, 3000)]
    r.shuffle(items)
    B = 40
    for i in range(0, len(items), B):
        c = {'kind': 'grid', 'items': items[i:i + B]}
        if (i // B) % 5 == 0:
            c['levels'] = [1, 2, 3]
        cs.append(c)
    # windows
    toks = window_alphabet(small=False)
    wins = [([t], False) for t in toks]
    wins += [([a, b], False) for a in toks for b in toks]
    if tier == 'thorough':
        small = window_alphabet(small=True)
        wins += [([a, b, c], False) for a in small for b in small for c in small]
    else:
        small = window_alphabet(small=True)
        tri = [([a, b, c], False) for a in small for b in small for c in small]
        wins += r.sample(tri, 6000)
    # entry-via-jump variants for windows that contain the label token
    wins += [(w, True) for w, _ in wins if ('_label', 'Lx') in w]
    B = 400
    for i in range(0, len(wins), B):
        cs.append({'kind': 'window', 'items': wins[i:i + B]})
    return cs


EXHAUSTIVE = {}


# ----------------------------------------------------------------------------- static array bounds
# "a static array bound has the value that unoptimised run-time evaluation produces": the bound the compiler lays storage
# out with is shown in the listing's .routines section (`single(0 to 4) a`); the run-time value is what LBOUND/UBOUND print.
BOUND_FRACS = [0.0, 0.3, 0.49, 0.5, 0.51, 0.7]


def bound_programs():
    """-> list of (text, [array names])"""
    vals = []
    for k in range(-3, 5):
        for f in BOUND_FRACS:
            vals.append(k + f)
    progs_ = []
    per = 6
    forms = ['lit', 'const', 'expr', 'paren']
    for i in range(0, len(vals), per):
        for fi, form in enumerate(forms):
            lines = []
            names = []
            for j, v in enumerate(vals[i:i + per]):
                lo = v
                hi = v + 2.5 if (j + fi) % 2 else v + 3
                nm = f'zb{j}'

                def spell(x, tag):
                    t = repr(abs(float(x)))
                    if form == 'lit':
                        return ('-' if x < 0 else '') + t
                    if form == 'const':
                        lines.append(f'CONST zc{tag}{j} = ' + (f'-{t}' if x < 0 else t))
                        return f'zc{tag}{j}'
                    if form == 'expr':
                        return f'{repr(float(x) * 2)} / 2' if x >= 0 else f'-{repr(abs(float(x)) * 2)} / 2'
                    return f'(({"-" if x < 0 else ""}{t}))'
                los, his = spell(lo, 'l'), spell(hi, 'h')
                kw = ['DIM', 'DIM SHARED'][j % 2]
                ty = ['', ' AS LONG', ' AS STRING', ' AS DOUBLE'][(j + fi) % 4]
                lines.append(f'{kw} {nm}({los} TO {his}){ty}')
                names.append(nm)
            lines.append('zguard% = 12345')
            for nm in names:
                lines.append(f'PRINT LBOUND({nm}); UBOUND({nm})')
            # touch both ends of every array, then the guard declared after them
            for nm in names:
                lines.append(f'{nm}(LBOUND({nm})) = {nm}(UBOUND({nm}))')
            lines.append('PRINT zguard%')
            progs_.append(('\n'.join(lines) + '\n', names))
    # one-sided bounds (lower bound 0) and procedure-local / STATIC arrays
    for fi, f in enumerate(BOUND_FRACS):
        lines = [f'DIM zb0({2 + f})', f'DIM zb1({3 + f}, {1 + f}) AS LONG', 'PRINT LBOUND(zb0); UBOUND(zb0)',
                 'PRINT LBOUND(zb1); UBOUND(zb1)', 'PRINT LBOUND(zb1, 2); UBOUND(zb1, 2)', 'zs', 'zs', 'END', 'SUB zs',
                 f'DIM zb2({-1 - f} TO {1 + f})', f'STATIC zb3({0.5 + f} TO {2 + f}) AS INTEGER', 'PRINT LBOUND(zb2); UBOUND(zb2)',
                 'PRINT LBOUND(zb3); UBOUND(zb3)', 'zb3(UBOUND(zb3)) = zb3(UBOUND(zb3)) + 1', 'PRINT zb3(UBOUND(zb3))', 'END SUB']
        progs_.append(('\n'.join(lines) + '\n', ['zb0', 'zb1', 'zb1#2', 'zb2', 'zb3']))
    return progs_




def run_bounds(case):
    import re as _re
    decl_re = _re.compile(r'^\s+[\w ]+?\(([^)]*)\)\s+(\S+)\s*$', _re.M)
    st = {'bound_programs': 0, 'static_bounds_compared': 0, 'level_runs_compared': 0}
    viol = []
    shapes = []
    sample = None
    allp = bound_programs()
    for idx in range(case['lo'], case['hi']):
        text, names = allp[idx]
        st['bound_programs'] += 1
        for L in (0, 1, 2, 3):
            c = rt.compile_src(text, L, False, want_listing=True)
            if c.status != 'ok':
                viol.append(V(f'C02:bounds:rejected:{c.status}', f'O{L}: {c.brief()} {c.msg}', text=text))
                continue
            listing = c.listing or ''
            declared = {}
            for m in decl_re.finditer(listing.split('.code')[0]):
                dims = []
                ok = True
                for part in m.group(1).split(','):
                    mm = _re.fullmatch(r'\s*(-?\d+)\s+to\s+(-?\d+)\s*', part)
                    if not mm:
                        ok = False
                        break
                    dims.append((int(mm.group(1)), int(mm.group(2))))
                if ok and dims:
                    declared[m.group(2).lower().split('_')[-1]] = dims
            r = rt.run_module(rt.load_module(c.modbytes), {}, max_ticks=20000)
            st['level_runs_compared'] += 1
            prints = [[it[2] for it in e[1] if isinstance(it, list) and it[0] == 'v'] for e in r.history if e[0] == 'print']
            if r.outcome != ['halt']:
                viol.append(V(f'C02:bounds:run-ended:{r.outcome[0]}', f'O{L}: the program that only touches both ends of each array '
                              f'ended {r.outcome}', text=text))
                continue
            k = 0
            for nm in names:
                base, _, dimno = nm.partition('#')
                d = declared.get(base)
                if k >= len(prints) or len(prints[k]) != 2:
                    break
                lo_rt, hi_rt = prints[k]
                k += 1
                if d is None:
                    continue
                lo_st, hi_st = d[int(dimno) - 1] if dimno else d[0]
                st['static_bounds_compared'] += 1
                shapes.append(f'bounds|{idx}|{nm}|{L}')
                if (lo_st, hi_st) != (lo_rt, hi_rt):
                    viol.append(V('C02:bounds:static-vs-runtime', f'O{L}: array {base} is laid out for {lo_st} TO {hi_st} (listing), '
                                  f'LBOUND/UBOUND at run time say {lo_rt} TO {hi_rt}', text=text))
            if sample is None:
                sample = {'bounds_program': text[:300], 'declared': {k_: v for k_, v in list(declared.items())[:3]}}
    return {'viol': viol, 'stats': st, 'shape': shapes, 'nontrivial': bool(shapes), 'sample': sample}


def run_case(case):
    k = case['kind']
    if k == 'bounds':
        return run_bounds(case)
    if k == 'level':
        return run_level(case)
    if k == 'grid':
        return run_grid(case)
    return run_windows(case)
