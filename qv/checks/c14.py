"""C14 - spelling, spacing, comments and separators do not change the program."""
import random
import re

from .. import cases, diff
from ..gen import render
from .common import shape_of, gen_cases_corpus, V

PROP = 'C14'
LEVEL = 'exploration'
RULE = ('each case = one source + k rewritten variants (compositions of: letter case of keywords/identifiers, '
        'blanks/tabs between tokens, REM/trailing comments, blank lines, colon joining, LET, CALL f(..) vs bare call, '
        'NEXT with/without variable, <> vs ><, label/line-number renaming); compared: acceptance, then sections 1-4, '
        'else device history + outcome; non-trivial = variant text differs from the original and the program is '
        'accepted; distinct = shape hash of the original')
ASSUMPTIONS = ['rewrites are applied by the IR renderer (generated programs) or by a conservative text rewriter '
               '(repo snippets: case of everything outside strings/DATA/comments, blank and REM lines)']
REQUIRED_COUNTERS = ['variants_compared', 'variants_textually_different']


_SIMPLE = re.compile(r'^\s*(?:(LET)\s+)?([A-Za-z][\w.]*[%&!#$]?(?:\([^()"]*\))?)\s*=(?!=)[^"\':]*(?:"[^"]*"[^"\':]*)*$|^\s*PRINT\b[^"\':]*(?:"[^"]*"[^"\':]*)*$', re.I)
_KEYWORD_START = re.compile(r'^\s*(IF|FOR|NEXT|WHILE|WEND|DO|LOOP|SELECT|CASE|END|SUB|FUNCTION|DIM|CONST|TYPE|DATA|REM|DECLARE|DEF|ON|GOTO|GOSUB|RETURN|'
                            r'RESUME|STATIC|SHARED|ELSE|ELSEIF|EXIT|CALL|READ|RESTORE|INPUT|LOCATE|COLOR|CLS)\b', re.I)


def split_colons(line):
    """Parts of a line separated by ':' outside string literals, or None when the line is no plain statement list."""
    if "'" in line or re.search(r'\b(if|then|else|rem|data)\b', line, re.I):
        return None
    parts, cur, inq = [], '', False
    for ch in line:
        if ch == '"':
            inq = not inq
        if ch == ':' and not inq:
            parts.append(cur)
            cur = ''
        else:
            cur += ch
    parts.append(cur)
    if len(parts) < 2 or not all(_SIMPLE.match(p_) and not _KEYWORD_START.match(p_) for p_ in parts):
        return None
    return parts


def restructure(text, r, mode='random'):
    """Statement-level rewrites on plain text: split 'a : b' onto lines, join consecutive simple statements, add/remove LET.
    mode: 'split' / 'join' / 'let' apply that one rewrite wherever it is possible, 'random' mixes them."""
    p_split, p_let, p_join = {'random': (0.6, 0.3, 0.3), 'split': (1.0, 0.0, 0.0), 'join': (0.0, 0.0, 1.0), 'let': (0.0, 1.0, 0.0)}[mode]
    lines = text.split('\n')
    out = []
    for line in lines:
        parts = split_colons(line)
        if parts is not None and r.random() < p_split:
            out.extend(p_.strip() for p_ in parts)
        else:
            out.append(line)
    lines, out = out, []
    for line in lines:
        m = _SIMPLE.match(line) if (':' not in line and "'" not in line and not _KEYWORD_START.match(line)) else None
        if m and m.group(2) and r.random() < p_let:
            if m.group(1):
                line = re.sub(r'^(\s*)LET\s+', r'\1', line, flags=re.I)
            else:
                line = re.sub(r'^(\s*)', r'\1LET ', line)
        prev = out[-1] if out else None
        if (m and prev is not None and ':' not in prev and "'" not in prev and _SIMPLE.match(prev) and not _KEYWORD_START.match(prev)
                and not prev.rstrip().endswith((';', ',')) and r.random() < p_join):
            out[-1] = prev.rstrip() + ' : ' + line.strip()
        else:
            out.append(line)
    return '\n'.join(out)


def rewrite_text(text, r, mode='random'):
    """Conservative neutral rewrite of arbitrary source text (used for repo snippets)."""
    out = []
    text = restructure(text, r, mode)
    for line in text.split('\n'):
        md = re.fullmatch(r'(\s*(?:\w+:\s*|\d+\s+)?)(data)(\s+)([^"\':]*)', line, re.I)
        if md:
            # blanks (spaces and TABs) around unquoted DATA items and their commas are not part of the items
            items = [it.strip() for it in md.group(4).split(',')]
            seps = [r.choice([',', ', ', ' , ', ',\t', '\t,\t', '  ,  ']) for _ in items[1:]]
            body = items[0] + ''.join(sp + it for sp, it in zip(seps, items[1:]))
            out.append(md.group(1) + md.group(2) + r.choice([' ', '  ', '\t']) + body + r.choice(['', ' ', '\t', ' \t ']))
            continue
        if re.search(r'\bdata\b', line, re.I) or re.search(r"\brem\b|'", line, re.I):
            out.append(line)
            continue
        parts = re.split(r'("[^"]*")', line)
        new = ''
        for i, p in enumerate(parts):
            if i % 2 == 1:
                new += p
            else:
                mode = r.choice(['upper', 'lower', 'mixed'])
                if mode == 'upper':
                    new += p.upper()
                elif mode == 'lower':
                    new += p.lower()
                else:
                    new += ''.join(c.upper() if r.random() < 0.5 else c.lower() for c in p)
        if r.random() < 0.15:
            out.append('')
        if r.random() < 0.15:
            out.append("' a comment line")
        if r.random() < 0.1:
            out.append('REM another')
        if new.strip() and r.random() < 0.2:
            new = new + "   ' trailing comment"
        if new.strip() and r.random() < 0.3:
            new = '  ' + new
        out.append(new)
    return '\n'.join(out)


# label/line-number naming: every statement that mentions a label, instantiated with many names (line 0 included)
LABEL_TEMPLATES = [
    "GOSUB {A}\nPRINT 1\nEND\n{A:}PRINT 2\nRETURN\n",
    "GOSUB {A}\nPRINT 1\nEND\n{B:}PRINT 3\nEND\n{A:}PRINT 2\nRETURN {B}\n",
    "DATA 1,2\n{A:}DATA 3,4\n{B:}DATA 5\nREAD x, y\nRESTORE {A}\nREAD z\nPRINT x; y; z\nRESTORE {B}\nREAD z\nPRINT z\nRESTORE\nREAD z\nPRINT z\n",
    "DATA 1\n{A:}PRINT 7\n{B:}DATA 2\nDATA 3\nRESTORE {A}\nREAD z\nPRINT z\nRESTORE {B}\nREAD z\nPRINT z\n",
    "ON ERROR GOTO {A}\nx% = 1 \\ z%\nPRINT 1\nEND\n{A:}PRINT 2\nRESUME NEXT\n",
    "i = 0\n{A:}i = i + 1\nPRINT i\nIF i < 3 THEN GOTO {A}\nGOTO {C}\n{B:}PRINT 9\n{C:}PRINT 8\n",
    "zs\nEND\nSUB zs\nGOTO {A}\nPRINT 1\n{A:}PRINT 2\nGOSUB {B}\nEXIT SUB\n{B:}PRINT 3\nRETURN\nEND SUB\n",
    "{A:}x = x + 1\n{B:}PRINT x\n{C:}IF x < 3 THEN GOTO {A}\n",
    "GOSUB {A}\nGOSUB {B}\nEND\n{A:}PRINT 1\n{B:}PRINT 2\nRETURN\n",
    "FOR i = 1 TO 3\nGOSUB {A}\nNEXT\nEND\n{A:}IF i = 2 THEN RETURN {B}\nPRINT i\nRETURN\n{B:}PRINT 99\n",
]
LABEL_NUMS = ['0', '1', '5', '10', '99', '100', '1000', '32768', '65529', '007']
LABEL_NAMES = ['a', 'zq', 'x9', 'label1', 'FooBar', 'zlabel9z', 'L', 'zZ', 'o0']   # dotted label names are not supported by qbee's grammar


def inst_labels(tpl, names):
    t = tpl
    for k, nm in names.items():
        t = t.replace('{' + k + ':}', (nm + ' ') if nm.isdigit() else (nm + ': '))
        t = t.replace('{' + k + '}', nm)
    import re as _re
    return _re.sub(r'\{[ABC]:\}', '', t)


def run_label_case(case):
    r = random.Random(case['vseed'])
    tpl = LABEL_TEMPLATES[case['t']]
    base_names = {'A': 'zla', 'B': 'zlb', 'C': 'zlc'}
    text = inst_labels(tpl, base_names)
    st = {'variants_compared': 0, 'variants_textually_different': 0, 'sections_equal': 0,
          'sections_differ_behaviour_equal': 0, 'rejected_both': 0, 'rules_used': ['labels'], 'label_namings': 0}
    viol = []
    namings = []
    for v in range(case['nvar']):
        pool = LABEL_NUMS + LABEL_NAMES
        if v == 0:
            pick = ['0', '5', '9']
        elif v == 1:
            pick = ['7', '0', 'a']
        elif v == 2:
            pick = ['a', 'b', '0']
        else:
            pick = r.sample(pool, 3)
        if len({int(p) if p.isdigit() else p.lower() for p in pick}) < 3:
            continue
        if 'ON ERROR GOTO {A}' in tpl and pick[0].isdigit() and int(pick[0]) == 0:
            pick[0] = '3'       # ON ERROR GOTO 0 means "handler off", whatever line 0 is
        namings.append(dict(zip('ABC', pick)))
    for cfg in ((0, False), (1, True), (2, False)):
        base = diff.observe(text, cfg, {}, max_ticks=20000)
        for nm in namings:
            vt = inst_labels(tpl, nm)
            st['variants_compared'] += 1
            st['variants_textually_different'] += 1
            st['label_namings'] += 1
            o = diff.observe(vt, cfg, {}, max_ticks=20000)
            tag = 'numeric0' if '0' in nm.values() else 'other'
            if o['brief'][:2] != base['brief'][:2]:
                viol.append(V(f"C14:labels:acceptance:{base['brief'][0]}->{o['brief'][0]}:{tag}",
                              f"names {nm}: original {base['brief']} vs variant {o['brief']}", original=text, variant=vt,
                              msg2=o.get('msg')))
                continue
            if base['status'] != 'ok':
                st['rejected_both'] += 1
                continue
            d = diff.cmp_runs(base, o)
            if d:
                viol.append(V(f"C14:labels:behaviour:{tag}", f'names {nm}: {d}', original=text, variant=vt))
            elif all(base['sections'].get(s_) == o['sections'].get(s_) for s_ in (1, 2, 3, 4)):
                st['sections_equal'] += 1
            else:
                st['sections_differ_behaviour_equal'] += 1
    return {'viol': viol, 'stats': st, 'shape': f'labels{case["t"]}', 'nontrivial': True,
            'sample': {'original': text[:200], 'variant': inst_labels(tpl, namings[0])[:200], 'rules': ['labels']}}


def gen_cases(tier, seed):
    n = 70 if tier == 'quick' else 900
    cs = gen_cases_corpus(n, seed, opts={'max_stmts': 8}, with_repo=True)
    for i, c in enumerate(cs):
        c['nvar'] = (4 if c['src'] in ('tour', 'shape') else 3) if tier == 'quick' else 8
        c['vseed'] = seed * 977 + i
    for t in range(len(LABEL_TEMPLATES)):
        cs.append({'kind': 'labels', 't': t, 'nvar': 8 if tier == 'quick' else 60, 'vseed': seed * 31 + t})
    return cs


def run_case(case):
    if case.get('kind') == 'labels':
        return run_label_case(case)
    text, script, meta = cases.source_of(case)
    r = random.Random(case['vseed'])
    variants = []
    for k in range(case['nvar']):
        if case['src'] == 'gen':
            rules = r.sample(render.ALL_RULES, r.randint(1, 6))
            st = render.Style(case['vseed'] * 131 + k, rules)
            vt, _ = render.render(meta['prog'], st)
            variants.append((vt, rules))
        else:
            mode = ['split', 'join', 'let', 'random'][k % 4] if case['src'] in ('tour', 'shape') else 'random'
            variants.append((rewrite_text(text, r, mode), ['text-case', 'comments', 'blank', 'text-split-join', 'text-let']))
    st = {'variants_compared': 0, 'variants_textually_different': 0, 'sections_equal': 0,
          'sections_differ_behaviour_equal': 0, 'rejected_both': 0, 'rules_used': []}
    viol = []
    cfgs = [(0, False), (2, True)] if case['vseed'] % 3 else [(1, False), (2, False)]
    if case['src'] == 'tour':
        cfgs = [(0, True), (2, False)] if case['idx'] % 2 else [(1, False), (2, True)]     # always one with debug info
    nontrivial = False
    for cfg in cfgs[:1 if case['src'] == 'repo' else 2]:
        base = diff.observe(text, cfg, script, max_ticks=40000)
        for vt, rules in variants:
            st['variants_compared'] += 1
            if vt != text:
                st['variants_textually_different'] += 1
            st['rules_used'] = sorted(set(st['rules_used']) | set(rules))
            o = diff.observe(vt, cfg, script, max_ticks=40000)
            rl = '+'.join(sorted(rules))
            if o['brief'][:2] != base['brief'][:2]:
                viol.append(V(f"C14:acceptance:{base['brief'][0]}->{o['brief'][0]}",
                              f"rules {rl}: original {base['brief']} vs variant {o['brief']} (line {o.get('err_line')})",
                              original=text, variant=vt, rules=rules, msg2=o.get('msg')))
                continue
            if base['status'] != 'ok':
                st['rejected_both'] += 1
                continue
            if vt != text:
                nontrivial = True
            needs_debug_section = cfg[1] and re.search(r'\bresume\b', text, re.I) is not None
            if all(base['sections'].get(s) == o['sections'].get(s) for s in (1, 2, 3, 4)) and not needs_debug_section:
                st['sections_equal'] += 1
                continue
            # (programs that RESUME also depend on the debug section: equal code sections do not settle their behaviour)
            if 'hist' not in o or 'hist' not in base:
                viol.append(V('C14:load-crash', 'module failed to load'))
                continue
            d = diff.cmp_runs(base, o)
            if d:
                viol.append(V(f"C14:behaviour:{'history' if d.startswith('history') else 'outcome'}",
                              f'rules {rl}: {d}', original=text, variant=vt, rules=rules))
            else:
                st['sections_differ_behaviour_equal'] += 1
    sample = None
    if nontrivial:
        sample = {'original': text[:300], 'variant': variants[0][0][:300], 'rules': variants[0][1]}
    return {'viol': viol, 'stats': st, 'shape': shape_of(text), 'nontrivial': nontrivial, 'sample': sample}
