"""C14 - spelling, spacing, comments and separators do not change the program."""
import random
import re

from .. import cases, diff
from ..gen import render
from .common import shape_of, gen_cases_corpus, V

PROP = 'C14'
LEVEL = 'exploration'
RULE = ('each case = one source + k rewritten variants (compositions of: letter case of keywords/identifiers, '
        'blanks/tabs between tokens, REM/trailing comments, blank lines, colon joining, LET, CALL f(..) vs bare call, '
        'NEXT with/without variable, <> vs ><, label/line-number renaming); compared: acceptance, then sections 1-4, '
        'else device history + outcome; non-trivial = variant text differs from the original and the program is '
        'accepted; distinct = shape hash of the original')
ASSUMPTIONS = ['rewrites are applied by the IR renderer (generated programs) or by a conservative text rewriter '
               '(repo snippets: case of everything outside strings/DATA/comments, blank and REM lines)']
REQUIRED_COUNTERS = ['variants_compared', 'variants_textually_different']


def rewrite_text(text, r):
    """Conservative neutral rewrite of arbitrary source text (used for repo snippets)."""
    out = []
    for line in text.split('\n'):
        if re.search(r'\bdata\b', line, re.I) or re.search(r"\brem\b|'", line, re.I):
            out.append(line)
            continue
        parts = re.split(r'("[^"]*")', line)
        new = ''
        for i, p in enumerate(parts):
            if i % 2 == 1:
                new += p
            else:
                mode = r.choice(['upper', 'lower', 'mixed'])
                if mode == 'upper':
                    new += p.upper()
                elif mode == 'lower':
                    new += p.lower()
                else:
                    new += ''.join(c.upper() if r.random() < 0.5 else c.lower() for c in p)
        if r.random() < 0.15:
            out.append('')
        if r.random() < 0.15:
            out.append("' a comment line")
        if r.random() < 0.1:
            out.append('REM another')
        if new.strip() and r.random() < 0.2:
            new = new + "   ' trailing comment"
        if new.strip() and r.random() < 0.3:
            new = '  ' + new
        out.append(new)
    return '\n'.join(out)


def gen_cases(tier, seed):
    n = 70 if tier == 'quick' else 900
    cs = gen_cases_corpus(n, seed, opts={'max_stmts': 8}, with_repo=True)
    for i, c in enumerate(cs):
        c['nvar'] = 3 if tier == 'quick' else 8
        c['vseed'] = seed * 977 + i
    return cs


def run_case(case):
    text, script, meta = cases.source_of(case)
    r = random.Random(case['vseed'])
    variants = []
    for k in range(case['nvar']):
        if case['src'] == 'gen':
            rules = r.sample(render.ALL_RULES, r.randint(1, 6))
            st = render.Style(case['vseed'] * 131 + k, rules)
            vt, _ = render.render(meta['prog'], st)
            variants.append((vt, rules))
        else:
            variants.append((rewrite_text(text, r), ['text-case', 'comments', 'blank']))
    st = {'variants_compared': 0, 'variants_textually_different': 0, 'sections_equal': 0,
          'sections_differ_behaviour_equal': 0, 'rejected_both': 0, 'rules_used': []}
    viol = []
    cfgs = [(0, False), (2, True)] if case['vseed'] % 3 else [(1, False), (2, False)]
    nontrivial = False
    for cfg in cfgs[:1 if case['src'] == 'repo' else 2]:
        base = diff.observe(text, cfg, script, max_ticks=40000)
        for vt, rules in variants:
            st['variants_compared'] += 1
            if vt != text:
                st['variants_textually_different'] += 1
            st['rules_used'] = sorted(set(st['rules_used']) | set(rules))
            o = diff.observe(vt, cfg, script, max_ticks=40000)
            rl = '+'.join(sorted(rules))
            if o['brief'][:2] != base['brief'][:2]:
                viol.append(V(f"C14:acceptance:{base['brief'][0]}->{o['brief'][0]}",
                              f"rules {rl}: original {base['brief']} vs variant {o['brief']} (line {o.get('err_line')})",
                              original=text, variant=vt, rules=rules, msg2=o.get('msg')))
                continue
            if base['status'] != 'ok':
                st['rejected_both'] += 1
                continue
            if vt != text:
                nontrivial = True
            if all(base['sections'].get(s) == o['sections'].get(s) for s in (1, 2, 3, 4)):
                st['sections_equal'] += 1
                continue
            if 'hist' not in o or 'hist' not in base:
                viol.append(V('C14:load-crash', 'module failed to load'))
                continue
            d = diff.cmp_runs(base, o)
            if d:
                viol.append(V(f"C14:behaviour:{'history' if d.startswith('history') else 'outcome'}",
                              f'rules {rl}: {d}', original=text, variant=vt, rules=rules))
            else:
                st['sections_differ_behaviour_equal'] += 1
    sample = None
    if nontrivial:
        sample = {'original': text[:300], 'variant': variants[0][0][:300], 'rules': variants[0][1]}
    return {'viol': viol, 'stats': st, 'shape': shape_of(text), 'nontrivial': nontrivial, 'sample': sample}
