"""C16 - numbers survive conversion to text and back (exact decimal arithmetic on the bit pattern)."""
import math
import random
import re
import struct
from fractions import Fraction

from .. import rt
from .common import V

PROP = 'C16'
LEVEL = 'exploration'
RULE = ('values: all 65 536 INTEGERs (exhaustive, both tiers); LONG/SINGLE/DOUBLE: powers of two and ten, type limits, '
        'subnormals, k*10^n +-1 ulp, 7/8- and 16/17-digit boundaries, seeded random bit patterns; for each value a compiled '
        'driver READs the exact value, PRINTs x and STR$(x) and VAL(STR$(x)); a second driver feeds the printed text back '
        'through READ and INPUT; oracle = Fraction arithmetic on the exact binary value; non-trivial = value whose text was '
        'checked and read back; distinct = (type, bit pattern)')
ASSUMPTIONS = ['"significant digits" are counted from the first to the last non-zero digit shown',
               'the exact value reaches the program through READ of a 17-digit decimal (checked: float(repr(x)) == x)']
REQUIRED_COUNTERS = ['values_checked', 'text_checked', 'val_roundtrips', 'read_roundtrips', 'input_roundtrips']
EXHAUSTIVE = {}
CASE_TIMEOUT = 900

NUMERAL = re.compile(r'^([ -])(\d*)(?:\.(\d*))?(?:([EeDd])([+-]?\d+))?$')


def rsingle(x):
    return struct.unpack('>f', struct.pack('>f', x))[0]


def parse_numeral(s):
    """-> (sign_char, exact Fraction value, exponent of last shown digit, sigdigits, exp_letter) or None."""
    m = NUMERAL.match(s)
    if not m:
        return None
    sign, ip, fp, el, ex = m.groups()
    ip = ip or ''
    fp_given = fp is not None
    fp = fp or ''
    if ip == '' and fp == '':
        return None
    e = int(ex) if ex else 0
    digits = ip + fp
    val = Fraction(int(digits or '0'), 10 ** len(fp)) * (Fraction(10) ** e)
    last_exp = e - len(fp)
    stripped = digits.lstrip('0')
    sig = len(stripped.rstrip('0')) if stripped else 0
    if sign == '-':
        val = -val
    return sign, val, last_exp, sig, el, fp_given


def check_text(t, ty, x, where):
    """Constraints of the property on the text of value x (exact float / int) of type ty. -> list of (sig,msg)"""
    out = []
    p = parse_numeral(t)
    if p is None:
        return [(f'C16:not-a-numeral:{ty}', f'{where} of {ty} {x!r} is {t!r}')]
    sign, val, last_exp, sig, el, _ = p
    true = Fraction(x)
    if ty in '%&':
        want = ('-' if x < 0 else ' ') + str(abs(x))
        if t != want:
            out.append((f'C16:integer-text:{ty}', f'{where} of {ty} {x} is {t!r}, plain decimal form is {want!r}'))
        return out
    if (sign == '-') != (x < 0 or (x == 0 and math.copysign(1, x) < 0 and False)):
        if not (x == 0):
            out.append((f'C16:sign:{ty}', f'{where} of {ty} {x!r} is {t!r}'))
    maxsig = 7 if ty == '!' else 17
    if sig > maxsig:
        out.append((f'C16:too-many-digits:{ty}', f'{where} of {ty} {x!r} is {t!r}: {sig} significant digits > {maxsig}'))
    half = Fraction(10) ** last_exp / 2
    if abs(val - true) > half:
        out.append((f'C16:text-not-within-half-unit:{ty}', f'{where} of {ty} {x!r} (exact {float(true)!r}) is {t!r}: off by '
                    f'{float(abs(val - true)):.3g} > half unit {float(half):.3g}'))
    return out


def special_values(ty, r, n_random):
    vals = set()
    if ty == '&':
        lim = [-2**31, -2**31 + 1, 2**31 - 1, 2**31 - 2, 0, 1, -1, 32767, 32768, -32768, -32769, 65535, 65536]
        vals.update(lim)
        for k in range(31):
            vals.update([2**k, -(2**k), 2**k - 1, 2**k + 1 if 2**k + 1 < 2**31 else 1])
        for k in range(10):
            vals.update([10**k, -(10**k), 10**k - 1, 10**k + 1])
        while len(vals) < len(lim) + 120 + n_random:
            vals.add(r.randint(-2**31, 2**31 - 1))
        return sorted(vals)
    if ty == '!':
        def ok(v):
            return not (math.isinf(v) or math.isnan(v))

        def bits(b):
            return struct.unpack('>f', struct.pack('>I', b))[0]
        for k in range(-149, 128):
            vals.add(rsingle(2.0 ** k)) if k >= -149 else None
        for k in range(-45, 39):
            try:
                v = rsingle(float(f'1e{k}'))
            except OverflowError:
                continue
            for d in (-1, 0, 1):
                b = struct.unpack('>I', struct.pack('>f', v))[0] + d
                vals.add(bits(b))
            for m in (2, 5, 9.999999, 1.234567, 9.5, 1.5):
                try:
                    vals.add(rsingle(m * 10.0 ** k))
                except OverflowError:
                    pass
        vals.update([bits(0x7f7fffff), bits(0x00800000), bits(0x00000001), bits(0x007fffff), 0.0, 1.0, 0.1 and rsingle(0.1),
                     rsingle(16777216.0), rsingle(16777217.0), rsingle(9999999.0), rsingle(9999999.5), rsingle(10000000.0),
                     rsingle(999999.9), rsingle(99999.95), rsingle(0.001), rsingle(0.0001), rsingle(0.00001234567),
                     rsingle(123456.7), rsingle(1234567.0), rsingle(12345678.0), rsingle(0.5), rsingle(1e20), rsingle(3.14159265)])
        while len(vals) < 700 + n_random:
            v = bits(r.getrandbits(32))
            if ok(v):
                vals.add(v)
        out = set()
        for v in vals:
            if ok(v):
                out.add(v)
                out.add(-v)
        return sorted(out)
    if ty == '#':
        def bits(b):
            return struct.unpack('>d', struct.pack('>Q', b))[0]
        for k in range(-1074, 1024, 7):
            vals.add(2.0 ** k)
        for k in range(-323, 309, 3):
            v = float(f'1e{k}')
            b = struct.unpack('>Q', struct.pack('>d', v))[0]
            for d in (-1, 0, 1):
                vals.add(bits(b + d))
            for m in (2.5, 9.999999999999999, 1.2345678901234567, 5.0):
                w = m * v
                if not math.isinf(w):
                    vals.add(w)
        vals.update([bits(0x7fefffffffffffff), bits(0x0010000000000000), bits(1), 0.0, 1.0, 0.1, 0.5, 1e16, 1e17, 9007199254740993.0,
                     9999999999999998.0, 1e15, 123456789012345.6, 1234567890123456.7, 0.001, 0.0001, 1e-5, 1e20, 1 / 3, 2 / 3,
                     3.141592653589793])
        while len(vals) < 600 + n_random:
            v = bits(r.getrandbits(64))
            if not (math.isinf(v) or math.isnan(v)):
                vals.add(v)
        out = set()
        for v in vals:
            if not (math.isinf(v) or math.isnan(v)):
                out.add(v)
                out.add(-v)
        return sorted(out)
    raise ValueError(ty)


def data_text(ty, v):
    if ty in '%&':
        return str(v)
    return repr(float(v)).replace('inf', '1e999')


def gen_cases(tier, seed):
    r = random.Random(seed)
    cs = []
    step = 1024
    for lo in range(-32768, 32768, step):
        cs.append({'ty': '%', 'range': [lo, min(lo + step, 32768)]})
    nrand = 1500 if tier == 'quick' else 250000
    for ty in '&!#':
        vals = special_values(ty, r, nrand)
        B = 250
        for i in range(0, len(vals), B):
            cs.append({'ty': ty, 'vals': vals[i:i + B]})
    # SINGLE cases first: cases are dealt round-robin to the worker processes, so most workers start with one and its cross-type
    # driver runs before anything else has formatted a number in that process (state kept inside the number formatter would
    # otherwise be saturated by the thousands of values of the integer cases)
    cs.sort(key=lambda c_: 0 if c_['ty'] == '!' else 1)
    return cs


def run_driver(text, script, max_ticks):
    c = rt.compile_src(text, 1, False)
    if c.status != 'ok':
        return None, f'{c.brief()} {c.msg}'
    mod = rt.load_module(c.modbytes)
    r = rt.run_module(mod, script, max_ticks=max_ticks)
    return r, None


def cross_type_driver(vals, st, viol):
    """SINGLE values also held in a DOUBLE variable of the same program, the DOUBLE printed first - run before anything else
    has formatted these values in this process: the text of a number depends on its value and its type only."""
    sub = [v for v in vals if v == v and abs(v) != float('inf')][:300]
    if not sub:
        return
    data_c = '\n'.join('DATA ' + ','.join(data_text('!', v) for v in sub[i:i + 50]) for i in range(0, len(sub), 50))
    drv_c = (f'{data_c}\nFOR zi& = 1 TO {len(sub)}\nREAD zx!\nzd# = zx!\nPRINT zd#\nPRINT zx!\nPRINT STR$(zx!)\nPRINT -zd#\nNEXT\n')
    rc_, errc = run_driver(drv_c, {}, 120 * len(sub) + 1000)
    if rc_ is None:
        viol.append(V('C16:driver2c-rejected', errc, text=drv_c[:600]))
        return
    oc = [e[1] for e in rc_.history if e[0] == 'out']
    for i, v in enumerate(sub):
        x = rsingle(v)
        if 4 * i + 3 >= len(oc):
            viol.append(V(f'C16:driver2c-stopped:{rc_.outcome}', f'cross-type driver stopped after {len(oc)} outputs: {rc_.outcome}'))
            break
        st['cross_type_texts'] = st.get('cross_type_texts', 0) + 1
        td, ts_, tstr, tneg = oc[4 * i][:-3], oc[4 * i + 1][:-3], oc[4 * i + 2][:-2], oc[4 * i + 3][:-3]
        for sg_, ms_ in check_text(td, '#', float(x), 'PRINT (as DOUBLE, before the SINGLE)'):
            viol.append(V(sg_ + ':cross-type', ms_))
        for sg_, ms_ in check_text(ts_, '!', float(x), 'PRINT (as SINGLE, after the DOUBLE of the same value)'):
            viol.append(V(sg_ + ':cross-type', ms_))
        if tstr.strip() != ts_.strip():
            viol.append(V('C16:str-vs-print:!', f'STR$ gives {tstr!r}, PRINT gave {ts_!r} for SINGLE {x!r}'))
        if x != 0 and tneg.lstrip(' -') != td.lstrip(' -'):
            viol.append(V('C16:negation-digits:#:cross-type', f'DOUBLE {float(x)!r} prints as {td!r}, its negation as {tneg!r}'))


def run_case(case):
    ty = case['ty']
    st = {'values_checked': 0, 'text_checked': 0, 'val_roundtrips': 0, 'read_roundtrips': 0, 'input_roundtrips': 0,
          'exponent_form': 0, 'plain_form': 0}
    viol = []
    if 'range' in case:
        vals = list(range(*case['range']))
    else:
        vals = case['vals']
    n = len(vals)
    if ty == '!':
        cross_type_driver(vals, st, viol)
    data = '\n'.join('DATA ' + ','.join(data_text(ty, v) for v in vals[i:i + 50]) for i in range(0, n, 50))
    neg = f'PRINT -zx{ty}'
    if ty == '%':
        neg = 'IF zx% > -32768 THEN PRINT -zx% ELSE PRINT 0'
    elif ty == '&':
        neg = 'IF zx& > -2147483647 THEN PRINT -zx& ELSE PRINT 0'
    drv = (f'{data}\nFOR zi& = 1 TO {n}\nREAD zx{ty}\nPRINT zx{ty}\nPRINT STR$(zx{ty})\nPRINT VAL(STR$(zx{ty}))\n'
           f'{neg}\nNEXT\n')
    r, err = run_driver(drv, {}, 80 * n + 1000)
    if r is None:
        return {'viol': [V('C16:driver-rejected', err, text=drv[:600])], 'stats': st, 'shape': None, 'nontrivial': False}
    prints = [e[1] for e in r.history if e[0] == 'print']
    outs = [e[1] for e in r.history if e[0] == 'out']
    if r.outcome[0] == 'crash' or len(outs) < 4:
        viol.append(V(f'C16:driver-outcome:{r.outcome[1] if len(r.outcome) > 1 else r.outcome[0]}',
                      f'driver ended {r.outcome} after {len(outs)} outputs; {r.crash_tb}', text=drv[:300]))
    texts = []
    shapes = []
    nfull = len(outs) // 4
    for i in range(min(n, nfull)):
        v = vals[i]
        p_x, p_str, p_val, p_neg = prints[4 * i: 4 * i + 4]
        t_x, t_str, t_val, t_neg = outs[4 * i: 4 * i + 4]
        st['values_checked'] += 1
        shapes.append(f'{ty}:{v!r}')
        # value that actually reached the program (typed PRINT argument)
        x = p_x[0][2]
        exp_x = v if ty in '%&' else (rsingle(v) if ty == '!' else v)
        if x != exp_x or p_x[0][1] != ty:
            viol.append(V(f'C16:read-exact:{ty}', f'READ of {data_text(ty, v)} into {ty} gave {p_x[0]}'))
            continue
        if not t_x.endswith(' \r\n'):
            viol.append(V(f'C16:print-framing:{ty}', f'PRINT of {x!r} produced {t_x!r}'))
            continue
        tx = t_x[:-3]
        texts.append((v, x, tx))
        st['text_checked'] += 1
        if 'E' in tx or 'D' in tx:
            st['exponent_form'] += 1
        else:
            st['plain_form'] += 1
        for sig, msg in check_text(tx, ty, x, 'PRINT text'):
            viol.append(V(sig, msg))
        # STR$ shows the same digits
        s_str = p_str[0][2]
        if s_str != tx:
            viol.append(V(f'C16:str-differs-from-print:{ty}', f'{ty} {x!r}: PRINT shows {tx!r}, STR$ gives {s_str!r}'))
        # negation shows the same digits
        tn = t_neg[:-3] if t_neg.endswith(' \r\n') else t_neg
        if x != 0 and not (ty in '%&' and -x > (32767 if ty == '%' else 2**31 - 2)):
            if tn.lstrip(' -') != tx.lstrip(' -'):
                viol.append(V(f'C16:negation-digits:{ty}', f'{ty} {x!r} prints {tx!r} but its negation prints {tn!r}'))
        # VAL(STR$(x)) gives the value back (to the shown precision)
        st['val_roundtrips'] += 1
        back = p_val[0][2]
        viol += roundtrip_viol(ty, x, tx, back, 'VAL')
    if nfull < n and r.outcome[0] != 'crash':
        viol.append(V(f'C16:driver-stopped:{r.outcome}', f'driver stopped after {nfull}/{n} values: {r.outcome} '
                      f'{r.stdout[-200:]!r}', value=repr(vals[nfull]) if nfull < n else None))
    # second driver: feed the printed text back through READ and INPUT
    if texts:
        items = [t.strip() for _, _, t in texts]
        m = len(items)
        data2 = '\n'.join('DATA ' + ','.join(items[i:i + 50]) for i in range(0, m, 50))
        drv2 = (f'{data2}\nFOR zi& = 1 TO {m}\nREAD zx{ty}\nPRINT zx{ty};\nNEXT\nFOR zi& = 1 TO {m}\nINPUT zy{ty}\nPRINT zy{ty};\nNEXT\n')
        r2, err = run_driver(drv2, {'input': items}, 120 * m + 1000)
        if r2 is None:
            viol.append(V('C16:driver2-rejected', err, text=drv2[:600]))
        else:
            p2 = [e[1] for e in r2.history if e[0] == 'print']
            redo = sum(1 for e in r2.history if e[0] == 'out' and 'Redo' in e[1])
            if redo:
                viol.append(V(f'C16:input-rejects-printed-text:{ty}', f'{redo} printed numerals were rejected by INPUT'))
            for i, (v, x, tx) in enumerate(texts):
                if i < len(p2):
                    st['read_roundtrips'] += 1
                    viol += roundtrip_viol(ty, x, tx, p2[i][0][2], 'READ')
                if m + i < len(p2):
                    st['input_roundtrips'] += 1
                    viol += roundtrip_viol(ty, x, tx, p2[m + i][0][2], 'INPUT')
            if len(p2) < 2 * m:
                viol.append(V(f'C16:driver2-stopped:{r2.outcome}:{ty}', f'read-back driver stopped after {len(p2)}/{2 * m}: '
                              f'{r2.outcome} {r2.stdout[-200:]!r} {r2.crash_tb}',
                              item=items[len(p2) % m] if items else None))
    # driver 2d: INPUT of two numbers per statement, the first response line rejected at its second field
    if texts and ty in '%&!#':
        pairs = [(texts[i], texts[i + 1]) for i in range(0, min(len(texts) - 1, 120), 2)]
        if pairs:
            drv_d = f'FOR zi& = 1 TO {len(pairs)}\nINPUT zy{ty}, zz{ty}\nPRINT zy{ty}; zz{ty}\nNEXT\n'
            resp = []
            for (a_, b_) in pairs:
                resp += [f'{b_[2].strip()},x{a_[2].strip()}', f'{a_[2].strip()},{b_[2].strip()}']
            rd, errd = run_driver(drv_d, {'input': resp}, 300 * len(pairs) + 1000)
            if rd is None:
                viol.append(V('C16:driver2d-rejected', errd, text=drv_d[:600]))
            else:
                pd = [e[1] for e in rd.history if e[0] == 'print']
                for i, (a_, b_) in enumerate(pairs):
                    if i >= len(pd):
                        viol.append(V(f'C16:driver2d-stopped:{rd.outcome}:{ty}', f'two-field INPUT driver stopped after {len(pd)}/{len(pairs)}: {rd.outcome}'))
                        break
                    st['input_after_redo_roundtrips'] = st.get('input_after_redo_roundtrips', 0) + 2
                    items_ = [it for it in pd[i] if isinstance(it, list) and it[0] == 'v']
                    if len(items_) == 2:
                        viol += [dict(w, sig=w['sig'] + ':after-redo') for w in roundtrip_viol(ty, a_[1], a_[2], items_[0][2], 'INPUT')]
                        viol += [dict(w, sig=w['sig'] + ':after-redo') for w in roundtrip_viol(ty, b_[1], b_[2], items_[1][2], 'INPUT')]
    # driver 2b: the texts are first READ into a LONG variable, then (after RESTORE) at their own type: what an earlier READ
    # made of an item must not stick to it
    if texts and ty in '!#':
        small = [(v, x, tx) for v, x, tx in texts if x == x and abs(x) < 1e9][:200]
        if small:
            items_b = [tx.strip() for _, _, tx in small]
            mb = len(items_b)
            data_b = '\n'.join('DATA ' + ','.join(items_b[i:i + 50]) for i in range(0, mb, 50))
            drv_b = (f'{data_b}\nFOR zi& = 1 TO {mb}\nREAD zl&\nNEXT\nRESTORE\nFOR zi& = 1 TO {mb}\nREAD zx{ty}\nPRINT zx{ty};\nNEXT\n')
            rb, errb = run_driver(drv_b, {}, 120 * mb + 1000)
            if rb is None:
                viol.append(V('C16:driver2b-rejected', errb, text=drv_b[:600]))
            else:
                pb = [e[1] for e in rb.history if e[0] == 'print']
                for i, (v, x, tx) in enumerate(small):
                    if i < len(pb):
                        st['reread_roundtrips'] = st.get('reread_roundtrips', 0) + 1
                        viol += [dict(w, sig=w['sig'] + ':after-integer-read') for w in roundtrip_viol(ty, x, tx, pb[i][0][2], 'READ')]
                if len(pb) < mb:
                    viol.append(V(f'C16:driver2b-stopped:{rb.outcome}:{ty}', f're-read driver stopped after {len(pb)}/{mb}: {rb.outcome}'))
    # third driver: the same numbers and texts written as constants in the source, unoptimised and fully optimised (what a
    # compiler evaluates itself must be what the run-time library produces)
    if texts:
        from .c19 import lit_of
        step = max(1, len(texts) // 40)
        pick = texts[::step][:40]
        lines3 = []
        def lit9(x):
            # SINGLE: the 9-digit decimal spelling (it identifies x, but as a decimal number it is not exactly x - a compiler
            # that formats the literal's decimal value instead of the SINGLE it denotes shows different digits)
            if ty == '!' and x == x and abs(x) not in (0.0, float('inf')):
                t9 = '%.9g' % x
                if rsingle(float(t9)) == x:
                    t9 = t9.replace('e', 'E')
                    neg = t9.startswith('-')
                    t9 = t9.lstrip('-')
                    if 'E' not in t9 and '.' not in t9:
                        t9 += '!'
                    return ('-' if neg else '') + t9
            return lit_of(ty, x)
        for v, x, tx in pick:
            lit = lit9(x)
            lines3 += [f'PRINT VAL("{tx.strip()}")', f'PRINT STR$({lit})', f'PRINT {lit}']
        drv3 = '\n'.join(lines3) + '\n'
        for cfg in ((0, False), (2, False), (1, True)):
            c3 = rt.compile_src(drv3, cfg[0], cfg[1])
            if c3.status != 'ok':
                viol.append(V(f'C16:driver3-rejected:{ty}', f'{rt.cfg_name(cfg)}: {c3.brief()} {c3.msg}', text=drv3[:400]))
                continue
            r3 = rt.run_module(rt.load_module(c3.modbytes), {}, max_ticks=200 * len(pick) + 1000)
            p3 = [e for e in r3.history if e[0] == 'print']
            o3 = [e[1] for e in r3.history if e[0] == 'out']
            st['constant_forms_checked'] = st.get('constant_forms_checked', 0)
            for i, (v, x, tx) in enumerate(pick):
                if 3 * i + 2 >= len(p3):
                    viol.append(V(f'C16:driver3-stopped:{r3.outcome}:{ty}', f'{rt.cfg_name(cfg)}: constant-form driver stopped after '
                                  f'{len(p3)}/{3 * len(pick)} statements: {r3.outcome}', value=repr(x)))
                    break
                st['constant_forms_checked'] += 1
                back = p3[3 * i][1][0][2]
                viol += [dict(w, sig=w['sig'] + ':constant-text') for w in roundtrip_viol(ty, x, tx, back, 'VAL')]
                stxt = p3[3 * i + 1][1][0][2]
                if isinstance(stxt, str) and stxt.strip() != tx.strip():
                    viol.append(V(f'C16:str-of-constant-differs:{ty}', f'{rt.cfg_name(cfg)}: STR$({lit9(x)}) gives {stxt!r}, the same '
                                  f'value held in a variable prints as {tx!r}', value=repr(x)))
                pv = p3[3 * i + 2][1][0]
                if pv[1] != ty or (pv[2] != x and not (pv[2] != pv[2] and x != x)):
                    viol.append(V(f'C16:constant-value-differs:{ty}', f'{rt.cfg_name(cfg)}: PRINT {lit9(x)} pushes {pv[1:]}, the '
                                  f'value read from DATA was {x!r}', value=repr(x)))
    sample = {'type': ty, 'value': repr(vals[0]), 'print_text': texts[0][2] if texts else None}
    # de-duplicate violations by signature within the case, keep counts
    return {'viol': viol[:60], 'stats': st, 'shape': shapes, 'nontrivial': bool(texts), 'sample': sample}


def roundtrip_viol(ty, x, tx, back, how):
    out = []
    if ty in '%&':
        if back != x:
            out.append(V(f'C16:roundtrip:{how}:{ty}', f'{how} of {tx!r} gives {back!r}, value was {x}'))
        return out
    p = parse_numeral(tx)
    if p is None:
        return out
    unit = Fraction(10) ** p[2]
    try:
        d = abs(Fraction(back) - Fraction(x))
    except (ValueError, OverflowError, TypeError):
        return [V(f'C16:roundtrip:{how}:{ty}', f'{how} of {tx!r} gives {back!r}')]
    if d > unit:
        out.append(V(f'C16:roundtrip:{how}:{ty}', f'{how} of {tx!r} gives {back!r}; value was {x!r}; differs by '
                     f'{float(d):.3g} > one unit of the last shown digit'))
    return out
