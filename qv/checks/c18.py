"""C18 - INPUT assigns only well-typed values and re-prompts on bad lines."""
import hashlib
import random
import struct

from .. import rt
from .common import V

PROP = 'C18'
LEVEL = 'exploration'
RULE = ('INPUT statements with 1-4 variables of every type, targets scalar / array element / record field / by-reference '
        'parameter, three prompt forms (none, "p"; , "p",) x response histories of 1-5 lines drawn from {valid, too few, too '
        'many, non-numeric field i, out-of-range field i, surrounding blanks, exotic spellings (1_0, inf, nan, 0x10, full-width '
        'digits, 1e, --1), D exponents, empty string field} ending in a valid line, followed by a continuation (PRINT of all '
        'variables, GOSUB/RETURN or END SUB, second INPUT); oracle = reference INPUT model; monitors: prompt/redo sequence, cell '
        'digest at every re-prompt, typed values printed afterwards, outcome, final stack depth; non-trivial = >=1 line '
        'processed; distinct = (statement shape, response class sequence)')
ASSUMPTIONS = ['numeric syntax demanded = optional sign, digits, optional fraction, optional E/D exponent, surrounding blanks; '
               'fractional or exponent text for integer variables, empty numeric fields and quoted fields are not generated '
               '(the property is silent about them)']
REQUIRED_COUNTERS = ['input_statements', 'lines_processed', 'rejected_lines_expected', 'digests_at_reprompt']


def rsingle(x):
    return struct.unpack('>f', struct.pack('>f', x))[0]


VALID = {
    '%': ['0', '5', '-7', '32767', '-32768', '+12', ' 42 ', '007', '32767.4', '-32768.4', '-32768.5', '32766.5', '2.5', '3.5', '3.27674E4',
          '-.5', '1e2'],
    '&': ['0', '70000', '-2147483648', '2147483647', ' 9 ', '+3', '2147483647.4', '-2147483648.5', '2147483646.5', '0.5', '1.5', '2D9'],
    '!': ['0', '1.5', '-2.25', '1e3', '.5', '5.', '+.5E-2', ' 3.25 ', '3.4E38', '7'],
    '#': ['0', '1.5', '-2.25', '1e300', '.5', '5.', '1D3', '2.5d-2', ' 8 ', '123456789.125'],
    '$': ['abc', 'two words', '', '  padded  ', '12', 'x:y', "it's"],
}
NONNUM = ['abc', '1x', 'x1', '1_0', 'inf', 'nan', '-inf', 'Infinity', '0x10', '１２', '1e', '--1', '1..2', '1 2', '$5', '1e+',
          '&H10', '1,0'[:1] + 'O']
OUTOFRANGE = {'%': ['32768', '-32769', '100000', '32767.5', '3.27675E4', '-32768.6', '32767.51'],
              '&': ['2147483648', '-2147483649', '99999999999', '2147483647.5', '2.1474836475D9', '-2147483648.6'],
              '!': ['3.5E38', '1e39', '-1e40'], '#': ['1e309', '-1e400', '1D400']}


def value_of(text, ty):
    s = text.strip()
    if ty == '$':
        return s
    if ty in '%&':
        # the language's conversion to an integer type: nearest, halves to the even neighbour
        return int(round(float(s.replace('D', 'e').replace('d', 'e'))))
    v = float(s.replace('D', 'e').replace('d', 'e'))
    return rsingle(v) if ty == '!' else v


def gen_line(r, tys, cls):
    """-> (line text, accepted?, class tag)"""
    n = len(tys)
    fields = [r.choice(VALID[t]) for t in tys]
    if cls == 'valid':
        return ','.join(fields), True, 'valid'
    if cls == 'few':
        if n == 1:
            if tys[0] == '$':
                return r.choice(NONNUM), True, 'valid'      # any text is a valid string
            return r.choice(NONNUM[:12]), False, 'nonnumeric'
        k = r.randint(1, n - 1)
        return ','.join(fields[:k]), False, 'too-few'
    if cls == 'many':
        return ','.join(fields + [r.choice(['1', 'x', ''])] * r.randint(1, 2)), False, 'too-many'
    numeric = [i for i, t in enumerate(tys) if t != '$']
    if cls == 'nonnum':
        if not numeric:
            return ','.join(fields), True, 'valid'
        i = r.choice(numeric)
        fields[i] = r.choice(NONNUM[:16])
        tag = 'nonnumeric' + ('-exotic' if fields[i] in ('1_0', 'inf', 'nan', '-inf', 'Infinity', '0x10', '１２') else '')
        return ','.join(fields), False, f'{tag}@{i}/{n}'
    if cls == 'range':
        if not numeric:
            return ','.join(fields), True, 'valid'
        i = r.choice(numeric)
        fields[i] = r.choice(OUTOFRANGE[tys[i]])
        return ','.join(fields), False, f'out-of-range{tys[i]}@{i}/{n}'
    raise ValueError(cls)


def build(r):
    """-> dict(text, script lines, expected events...)"""
    nv = r.choice([1, 1, 2, 2, 3, 4])
    tys = [r.choice('%&!#$') for _ in range(nv)]
    place = r.choice(['main', 'main', 'sub', 'gosub'])
    kinds = []
    decl = ['TYPE zt', 'fa AS INTEGER', 'fb AS LONG', 'fc AS SINGLE', 'fd AS DOUBLE', 'fe AS STRING', 'END TYPE']
    pre = []
    targets = []
    params = []
    for i, t in enumerate(tys):
        k = r.choice(['scalar', 'scalar', 'elem', 'field', 'param'] if place == 'sub' else ['scalar', 'scalar', 'elem', 'field'])
        kinds.append(k)
        if k == 'scalar':
            targets.append(f'zv{i}{t}')
        elif k == 'elem':
            pre.append(f'DIM za{i}{t}(1 TO 3)')
            targets.append(f'za{i}{t}(2)')
        elif k == 'field':
            pre.append(f'DIM zr{i} AS zt')
            targets.append(f'zr{i}.f' + 'abcde'['%&!#$'.index(t)])
        else:
            params.append((f'zp{i}{t}', t))
            targets.append(f'zp{i}{t}')
    prompt = r.choice([None, None, 'Value', 'Enter: ', ''])
    sep = r.choice([';', ',']) if prompt is not None else None
    semi = r.random() < 0.2
    stmt = 'INPUT ' + ('; ' if semi else '') + (f'"{prompt}"{sep} ' if prompt is not None else '') + ', '.join(targets)
    # response history
    nlines = r.choice([1, 1, 2, 3, 4, 5])
    hist = []
    for j in range(nlines - 1):
        hist.append(gen_line(r, tys, r.choice(['few', 'many', 'nonnum', 'range', 'nonnum', 'range'])))
    hist.append(gen_line(r, tys, 'valid'))
    # make sure the history ends at the first accepted line
    cut = next(i for i, h in enumerate(hist) if h[1])
    hist = hist[:cut + 1]
    final = hist[-1][0].split(',')
    sentinel = {'%': '11', '&': '22', '!': '3.5', '#': '4.5', '$': '"init"'}
    body = [f'{tg} = {sentinel[t]}' for tg, t in zip(targets, tys)]
    body.append('PRINT "before"')
    body.append(stmt)
    body += [f'PRINT {tg}' for tg in targets]
    second = r.random() < 0.3
    if second:
        body.append('INPUT zlast%')
        body.append('PRINT zlast%')
    body.append('PRINT "after"')
    lines = list(decl)
    procs = []
    if place == 'main':
        lines += pre + body + ['GOSUB zg', 'PRINT "end"', 'END', 'zg: PRINT "gs"', 'RETURN']
    elif place == 'gosub':
        lines += pre + ['GOSUB zin', 'PRINT "end"', 'END', 'zin:'] + body + ['RETURN']
    else:
        call_args = []
        for (pn, pt) in params:
            lines.append(f'zarg{pn[2]}{pt} = ' + ('""' if pt == '$' else '0'))
            call_args.append(f'zarg{pn[2]}{pt}')
        lines += [('zsub ' + ', '.join(call_args)).strip()]
        lines += [f'PRINT {a}' for a in call_args]
        lines += ['PRINT "end"', 'END']
        procs = ['SUB zsub' + (' (' + ', '.join(p for p, _ in params) + ')' if params else '')] + pre + body + ['END SUB']
    text = '\n'.join(lines + procs) + '\n'
    exp_vals = [value_of(f, t) for f, t in zip(final, tys)]
    script = [h[0] for h in hist] + (['5'] if second else [])
    question = (prompt is None) or sep == ';'
    return {'text': text, 'script': script, 'hist': hist, 'tys': tys, 'exp_vals': exp_vals, 'prompt': prompt or '',
            'question': question, 'second': second, 'place': place, 'kinds': kinds, 'params': params, 'stmt': stmt}


def cells_digest(cpu):
    h = hashlib.sha1()

    def cell(c):
        if c is None:
            return 'N'
        v = c.value
        if isinstance(v, (int, float, str)):
            return f'{c.type.name}:{v!r}'
        return f'{c.type.name}:ref'
    f = cpu.cur_frame
    while f is not None:
        h.update(('|'.join(cell(c) for c in f.cells)).encode('utf-8', 'surrogatepass'))
        f = f.prev_frame
    h.update(('|'.join(cell(c) for c in cpu.globals_segment.cells)).encode('utf-8', 'surrogatepass'))
    return h.hexdigest()


# targets that depend on each other: the order of assignment is observable
ORDER_PROGS = [
    ("DIM za%(1 TO 5)\nzi% = 1\nINPUT zi%, za%(zi%)\nPRINT zi%; za%(1); za%(3)\n", ['3,42'], ' 3  0  42 \r\n'),
    ("INPUT zx%, zx%\nPRINT zx%\n", ['1,2'], ' 2 \r\n'),
    ("DIM za&(1 TO 5)\nzi% = 2\nINPUT za&(zi%), zi%, za&(zi%)\nPRINT zi%; za&(2); za&(4)\n", ['7,4,9'], ' 4  7  9 \r\n'),
    ("TYPE zt\nfa AS INTEGER\nEND TYPE\nDIM zr(1 TO 3) AS zt\nzi% = 1\nINPUT zi%, zr(zi%).fa\nPRINT zi%; zr(1).fa; zr(2).fa\n", ['2,5'],
     ' 2  0  5 \r\n'),
    ("DIM zs$(1 TO 3)\nzn% = 1\nINPUT zn%, zs$(zn%), zs$(zn% - 1)\nPRINT zn%; zs$(1); zs$(2); zs$(3)\n", ['3,c,b'], ' 3 bc\r\n'),
    ("zs\nSUB zs\nDIM zl%(1 TO 4)\nzk% = 1\nINPUT zk%, zl%(zk%), zk%\nPRINT zk%; zl%(1); zl%(2)\nEND SUB\n", ['2,8,1'], ' 1  0  8 \r\n'),
    ("zq% = 1\nzs zq%\nSUB zs (zp%)\nDIM zl#(1 TO 4)\nINPUT zp%, zl#(zp%)\nPRINT zp%; zl#(1); zl#(3)\nEND SUB\n", ['3,1.5'], ' 3  0  1.5 \r\n'),
]


def run_order(case):
    st = {'input_statements': 0, 'lines_processed': 0, 'rejected_lines_expected': 0, 'digests_at_reprompt': 0,
          'order_programs': 0}
    viol = []
    shapes = []
    for i, (text, script, want) in enumerate(ORDER_PROGS):
        for cfg in rt.CONFIGS6:
            c = rt.compile_src(text, cfg[0], cfg[1])
            if c.status != 'ok':
                viol.append(V(f'C18:rejected:{c.status}:{c.sig or c.err_code}', f'{c.brief()} {c.msg}', text=text))
                continue
            # a rejected line first: nothing of it may stick either
            run = rt.run_module(rt.load_module(c.modbytes), {'input': ['x' + script[0]] + script}, max_ticks=20000)
            st['input_statements'] += 1
            st['order_programs'] += 1
            st['lines_processed'] += 2
            st['rejected_lines_expected'] += 1
            st['digests_at_reprompt'] += 1
            shapes.append(f'order{i}|{rt.cfg_name(cfg)}')
            outs = [e[1] for e in run.history if e[0] == 'out']
            if run.outcome != ['halt'] or not outs or outs[-1] != want:
                viol.append(V('C18:assignment-order', f'[{rt.cfg_name(cfg)}] responses {script}: program printed '
                              f'{outs[-1] if outs else None!r} and ended {run.outcome}; in-order assignment gives {want!r}',
                              text=text, script=script))
    return {'viol': viol, 'stats': st, 'shape': shapes, 'nontrivial': True,
            'sample': {'program': ORDER_PROGS[0][0], 'responses': ORDER_PROGS[0][1]}}


def gen_cases(tier, seed):
    n = 1500 if tier == 'quick' else 20000
    B = 25
    return [{'seed': seed * 100003 + i, 'n': B} for i in range(0, n, B)] + [{'kind': 'order', 'seed': seed}]


def run_case(case):
    if case.get('kind') == 'order':
        return run_order(case)
    r = random.Random(case['seed'])
    st = {'input_statements': 0, 'lines_processed': 0, 'rejected_lines_expected': 0, 'digests_at_reprompt': 0,
          'classes': []}
    viol = []
    shapes = []
    sample = None
    orig_input = rt.RecPeripherals.terminal_input
    for j in range(case['n']):
        b = build(r)
        cfg = rt.CONFIGS6[(case['seed'] + j) % 6]
        c = rt.compile_src(b['text'], cfg[0], cfg[1])
        if c.status != 'ok':
            viol.append(V(f'C18:rejected:{c.status}:{c.sig or c.err_code}', f'{c.brief()} {c.msg}', text=b['text']))
            continue
        mod = rt.load_module(c.modbytes)
        digests = []

        def terminal_input(self, same_line, _d=digests):
            _d.append(cells_digest(self.cpu))
            return orig_input(self, same_line)
        rt.RecPeripherals.terminal_input = terminal_input
        try:
            run = rt.run_module(mod, {'input': b['script']}, max_ticks=20000, keep=True)
        finally:
            rt.RecPeripherals.terminal_input = orig_input
        st['input_statements'] += 1
        tagseq = [h[2].split('@')[0] for h in b['hist']]
        st['classes'] = sorted(set(st['classes']) | set(tagseq))
        shapes.append(f"{b['stmt']}|{'/'.join(tagseq)}|{b['place']}")
        cn = rt.cfg_name(cfg)
        ctx = f"[{cn}] {b['stmt']!r} responses {b['script']!r}"
        # expected terminal conversation
        h = [e for e in run.history if e[0] in ('out', 'in') and not (e[0] == 'out' and e[1] == '')]
        exp = [['out', 'before\r\n']]
        for (line, ok, tag) in b['hist']:
            if b['prompt']:
                exp.append(['out', b['prompt']])
            if b['question']:
                exp.append(['out', '? '])
            exp.append(['in', None, line])
            st['lines_processed'] += 1
            if not ok:
                st['rejected_lines_expected'] += 1
                exp.append(['out', 'Redo from start\r\n'])
        allgot = [[e[0], e[1]] if e[0] == 'out' else ['in', None, e[2]] for e in h]
        got = allgot[:len(exp)]
        if got == exp and len(allgot) > len(exp) and allgot[len(exp)] == ['out', 'Redo from start\r\n']:
            line = b['hist'][-1][0]
            why = 'dexp' if ('d' in line.lower() and any(t in '!#' for t in b['tys'])) else 'valid'
            viol.append(V(f'C18:valid-line-rejected:{why}', f'{ctx}: the valid line {line!r} was answered with Redo from start',
                          text=b['text'], script=b['script']))
            continue
        if got != exp:
            # classify: which response was mis-handled
            k = 0
            for k, (a, bb) in enumerate(zip(got, exp)):
                if a != bb:
                    break
            nin = sum(1 for e in exp[:k + 1] if e[0] == 'in')
            tag = b['hist'][max(0, nin - 1)][2] if b['hist'] else '?'
            kind = 'prompt' if nin == 0 or (exp[k][0] == 'out' and exp[k][1] != 'Redo from start\r\n' and got[k][0] == 'out') else \
                ('valid-line-rejected' if b['hist'][max(0, nin - 1)][1] else 'bad-line-accepted')
            viol.append(V(f"C18:{kind}:{tag.split('@')[0]}", f'{ctx}: conversation {got[k:k + 2]} where the model says {exp[k:k + 2]}',
                          text=b['text'], script=b['script']))
            continue
        # cell digest must be the same at every re-prompt of the same statement
        nd = len(b['hist'])
        ds = digests[:nd]
        st['digests_at_reprompt'] += max(0, len(ds) - 1)
        if len(set(ds)) > 1:
            viol.append(V('C18:rejected-line-changed-a-variable', f'{ctx}: memory differs between prompts of one INPUT',
                          text=b['text'], script=b['script']))
        # values afterwards
        prints = [e[1] for e in run.history if e[0] == 'print']
        vals = [p[0] for p in prints if p and isinstance(p[0], list) and p[0][0] == 'v']
        # prints: "before", targets..., [zlast], "after", ...
        tv = vals[1:1 + len(b['tys'])]
        want = [['v', t, v] for t, v in zip(b['tys'], b['exp_vals'])]
        if tv != want:
            viol.append(V('C18:assigned-values', f'{ctx}: variables afterwards {tv}, model {want}', text=b['text'], script=b['script']))
            continue
        if run.outcome != ['halt']:
            viol.append(V(f'C18:continuation-outcome:{run.outcome[1] if len(run.outcome) > 1 else run.outcome[0]}',
                          f'{ctx}: program ended {run.outcome} (line {run.trap_line}); {run.stdout[-160:]!r}', text=b['text'],
                          script=b['script']))
            continue
        texts = [e[1] for e in run.history if e[0] == 'out']
        if texts[-1] != 'end\r\n' or ('gs\r\n' not in texts and b['place'] == 'main'):
            viol.append(V('C18:continuation-history', f'{ctx}: continuation printed {texts[-4:]}', text=b['text'], script=b['script']))
        if b['place'] == 'sub' and b['params']:
            pv = vals[-(len(b['params']) + 1):-1]
            wantp = [['v', t, b['exp_vals'][[tg for tg in range(len(b['tys'])) if b['kinds'][tg] == 'param'][i]]] for i, (pn, t) in enumerate(b['params'])]
            if pv != wantp:
                viol.append(V('C18:byref-parameter-values', f'{ctx}: caller sees {pv}, model {wantp}', text=b['text']))
        # END executes `halt` inside main: exactly main's return address is left
        if len(run.cpu.stack) != 1 or run.cpu.stack[0].type.name != 'LONG':
            viol.append(V('C18:stack-not-clean-at-end', f'{ctx}: operand stack at END is {run.cpu.stack!r} (expected only the return address of the main routine)',
                          text=b['text'], script=b['script']))
        if sample is None:
            sample = {'program': b['text'][:400], 'responses': b['script'], 'classes': tagseq}
    return {'viol': viol, 'stats': st, 'shape': shapes, 'nontrivial': bool(shapes), 'sample': sample}
