"""C08 - debug information does not change what a program does (differential -g vs no -g)."""
from .. import cases, diff, rt
from .common import shape_of, gen_cases_corpus, V

PROP = 'C08'
LEVEL = 'exploration'
RULE = ('each case = one source (typed random program, repo snippet, or marker-sensitive shape) compiled at '
        'O0,O1,O2 with and without -g and run on the same input script; non-trivial = accepted and executed '
        '>=1 device event or trap; distinct = program shape hash (literals/numbers erased)')
ASSUMPTIONS = ['recording peripherals object stands in for the terminal', 'tick budget 150k per run']
REQUIRED_COUNTERS = ['pairs_compared', 'runs_compared', 'sections_compared']

SHAPES = [
    "IF x THEN\nELSE\nEND IF\nPRINT 1\n",
    "x = 1\nIF x THEN\nELSEIF x = 2 THEN\nELSE\nPRINT 2\nEND IF\n",
    "IF 1 THEN PRINT 1 ELSE PRINT 2\nPRINT 3\n",
    "IF 0 THEN PRINT 1 ELSE PRINT 2\n",
    "IF 0 THEN PRINT 1\nPRINT 4\n",
    "x = 2\nSELECT CASE x\nCASE 1\nCASE 2\nPRINT \"two\"\nCASE ELSE\nEND SELECT\n",
    "x = 2\nSELECT CASE x\nCASE 1\nSELECT CASE x\nCASE 2\nEND SELECT\nCASE 2\nSELECT CASE x + 1\nCASE 3\nPRINT 33\nEND SELECT\nEND SELECT\n",
    "FOR i = 1 TO 3\nNEXT\nPRINT i\n",
    "WHILE 0\nWEND\nPRINT 1\n",
    "DO\nLOOP UNTIL 1\nPRINT 1\n",
    "PRINT 1\nEND\nPRINT 2\n",
    "PRINT 1: END: PRINT 2\n",
    "GOTO a\nPRINT 1\na: PRINT 2\n",
    "foo\nPRINT 2\nSUB foo\nEND SUB\n",
    "PRINT f\nFUNCTION f\nEND FUNCTION\n",
    "x = 1: y = 2: PRINT x; y\n",
    "CONST a = 5\nIF a THEN PRINT a\n",
    "IF 1 THEN\nIF 0 THEN\nELSE\nEND IF\nEND IF\nPRINT 5\n",
    "x% = 5\nDO UNTIL x%\nPRINT x%\nLOOP\n",
    "ON ERROR GOTO h\nPRINT 1 \\ 0\nPRINT 2\nEND\nh: RESUME NEXT\n",
    "ON ERROR RESUME NEXT\nx% = 32767 + 1\nPRINT 2\n",
    # error handlers that never resume (the RESUME exemption does not apply): left with RETURN, GOTO, END, or running off the end,
    # after an error in the middle of an expression (operands pending) at module level, in a GOSUB routine, in a FOR header
    "ON ERROR GOTO h\nGOSUB w\nPRINT \"back\"\nEND\nw: PRINT \"r\"; 10 \\ z%\nPRINT \"unreached\"\nRETURN\nh: PRINT \"h\"\nRETURN\n",
    "ON ERROR GOTO h\nGOSUB w\nPRINT \"back\"\nGOSUB w2\nPRINT \"back2\"\nEND\nw: x% = 7 + 3 * (1 \\ z%)\nRETURN\nw2: PRINT \"w2\"\nRETURN\nh: PRINT \"h\"; ERR\nRETURN\n",
    "ON ERROR GOTO h\nx% = 7 + 1 \\ z%\nPRINT \"no\"\ncont: PRINT \"cont\"\nGOSUB s\nPRINT \"end\"\nEND\ns: PRINT \"s\"\nRETURN\nh: GOTO cont\n",
    "ON ERROR GOTO h\nPRINT \"a\"; 2 * (3 + 1 \\ z%)\nPRINT \"no\"\nEND\nh: PRINT \"h\"\nEND\n",
    "ON ERROR GOTO h\nPRINT zf%(2) + 5 * zf%(0)\nPRINT \"no\"\nEND\nh: PRINT \"h\"; ERR\nFUNCTION zf% (n%)\nzf% = 10 \\ n%\nEND FUNCTION\n",
    "ON ERROR GOTO h\nGOSUB w\nPRINT \"back\"\nEND\nw: FOR i% = 1 TO 5 + 10 \\ z%\nNEXT\nRETURN\nh: PRINT \"h\"\nRETURN\n",
    "ON ERROR GOTO h\nGOSUB w\nPRINT \"back\"\nEND\nw: zs 3 + 1 \\ z%\nPRINT \"w2\"\nRETURN\nh: PRINT \"h\"\nRETURN\nSUB zs (n%)\nPRINT n%\nEND SUB\n",
    "ON ERROR GOTO h\nDIM q(3)\nGOSUB w\nPRINT \"back\"; q(1)\nEND\nw: q(1) = 4 + q(5)\nRETURN\nh: q(1) = 9\nRETURN\n",
    "ON ERROR GOTO h\nFOR k% = 1 TO 3\nGOSUB w\nNEXT\nPRINT \"end\"; k%\nEND\nw: PRINT k%; 100 \\ (k% - 2)\nRETURN\nh: PRINT \"h\"\nRETURN\n",
    # characters inside literals and DATA items that a source pre-processing step could touch
    "PRINT \"a\tb\"; LEN(\"a\tb\")\nREAD x$, y$\nPRINT x$; LEN(x$); y$; LEN(y$)\nDATA \"p\tq\", r\ts\n",
    "x$ = \"  lead\": y$ = \"trail  \": z$ = \"a  b\"\nPRINT x$; y$; z$; LEN(x$ + y$ + z$)\nDATA \"  q  \",  r  r  ,\nREAD a$, b$, c$\nPRINT a$; b$; c$; LEN(a$); LEN(b$)\n",
    "PRINT \"REM not a comment ' nor this\": PRINT \"a:b\" ' real comment \"x\"\nPRINT \"\x0c\x0b\x1c|\r|\u00e9\u00c7\"; LEN(\"\x0c\r\")\n",
    "\tPRINT \"indented with a tab\"\nIF 1 THEN\tPRINT\t\"tabs\tbetween tokens\"\nDATA\ta\tb,\tc\nREAD p$, q$\nPRINT p$; LEN(p$); q$\n",
]


def gen_cases(tier, seed):
    n = 90 if tier == 'quick' else 1500
    cs = gen_cases_corpus(n, seed, opts={'max_stmts': 8, 'on_error': False})
    cs += [{'src': 'text', 'text': t, 'seed': i} for i, t in enumerate(SHAPES)]
    from .common import shape_cases
    cs += shape_cases(60 if tier == 'quick' else None, seed)
    return cs


def run_case(case):
    text, script, meta = cases.source_of(case)
    viol = []
    st = {'pairs_compared': 0, 'runs_compared': 0, 'sections_compared': 0, 'resume_exempt': 0,
          'rejected_both': 0, 'events': 0}
    nontrivial = False
    for O in (0, 1, 2):
        a = diff.observe(text, (O, False), script)
        b = diff.observe(text, (O, True), script)
        st['pairs_compared'] += 1
        if a['status'] == 'crash' or b['status'] == 'crash':
            if a['brief'] != b['brief']:
                viol.append(V(f'C08:acceptance-differs', f"O{O}: no-g {a['brief']} vs -g {b['brief']}"))
            continue
        if a['brief'][:2] != b['brief'][:2]:
            viol.append(V('C08:acceptance-differs', f"O{O}: no-g {a['brief']} vs -g {b['brief']}"))
            continue
        if a['status'] != 'ok':
            st['rejected_both'] += 1
            continue
        for sec in (1, 2, 3):
            st['sections_compared'] += 1
            if a['sections'].get(sec) != b['sections'].get(sec):
                viol.append(V(f'C08:section{sec}-differs', f'O{O}: section {sec} differs between -g and no -g'))
        if a['sections'].get(4) != b['sections'].get(4):
            st['code_section_differs_note'] = st.get('code_section_differs_note', 0) + 1
        if 'hist' not in a or 'hist' not in b:
            viol.append(V('C08:load-crash', f"O{O}: {a.get('load_crash')} / {b.get('load_crash')}"))
            continue
        if a['resumed'] or b['resumed']:
            st['resume_exempt'] += 1
            continue
        st['runs_compared'] += 1
        st['events'] += len(a['hist'])
        if a['hist'] or a['outcome'][0] == 'trap':
            nontrivial = True
        d = diff.cmp_runs(a, b)
        if d:
            kind = 'history' if d.startswith('history') else 'outcome'
            viol.append(V(f'C08:{kind}-differs', f'O{O}: {d}'))
    sample = None
    if nontrivial and case.get('src') != 'repo':
        sample = {'source': text[:600], 'configs': 'O0..O2 x {g, no-g}', 'events_O2': len(a.get('hist', []))}
    return {'viol': viol, 'stats': st, 'shape': shape_of(text), 'nontrivial': nontrivial, 'sample': sample}
