"""Observation of one (source, config, script) and comparison helpers for the differential checks."""
from . import rt


def observe(text, cfg, script, run=True, max_ticks=150000, listing=False, keep_code=False):
    o = {}
    c = rt.compile_src(text, cfg[0], cfg[1], want_bytes=True, want_listing=listing)
    o['status'] = c.status
    o['brief'] = c.brief()
    o['err_line'] = rt.line_of(text, c.loc) if c.status in ('syntax', 'compile') else None
    o['sig'] = c.sig
    o['tb'] = c.tb
    o['msg'] = c.msg
    if keep_code:
        o['code'] = c.code
    if c.status != 'ok':
        return o
    o['sections'] = rt.sections(c.modbytes)
    o['listing'] = c.listing
    o['modbytes'] = c.modbytes
    if run:
        try:
            mod = rt.load_module(c.modbytes)
        except BaseException as e:  # noqa: BLE001  (QModule.parse calls exit() on malformed input)
            o['load_crash'] = f'{type(e).__name__}: {e}'
            return o
        r = rt.run_module(mod, script, max_ticks=max_ticks)
        o['hist'] = r.history
        o['outcome'] = r.outcome
        o['ticks'] = r.ticks
        o['trap_line'] = r.trap_line
        o['crash_tb'] = r.crash_tb
        o['resumed'] = r.resumed
    return o


def first_diff(a, b):
    n = min(len(a), len(b))
    for i in range(n):
        if a[i] != b[i]:
            return i, a[i], b[i]
    if len(a) != len(b):
        return n, (a[n] if len(a) > n else None), (b[n] if len(b) > n else None)
    return None


def cmp_runs(oa, ob, what=('hist', 'outcome')):
    """-> None or a short description of the first difference."""
    if 'hist' in what:
        d = first_diff(oa['hist'], ob['hist'])
        if d:
            return f'history differs at event {d[0]}: {str(d[1])[:120]} vs {str(d[2])[:120]}'
    if 'outcome' in what and oa['outcome'] != ob['outcome']:
        return f"outcome differs: {oa['outcome']} vs {ob['outcome']}"
    if 'ticks' in what and oa['ticks'] != ob['ticks']:
        return f"tick count differs: {oa['ticks']} vs {ob['ticks']}"
    return None
