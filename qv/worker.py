"""Worker process: python -m qv.worker <check> <in.json> <out.jsonl>."""
import faulthandler
import importlib
import json
import sys
import traceback


def main():
    check, inp, outp = sys.argv[1:4]
    faulthandler.enable()
    faulthandler.dump_traceback_later(1500, exit=False)
    sys.setrecursionlimit(3000)
    mod = importlib.import_module(f'qv.checks.{check}')
    with open(inp) as f:
        shard = json.load(f)
    if hasattr(mod, 'worker_init'):
        mod.worker_init()
    with open(outp, 'w') as out:
        for i, case in shard:
            try:
                r = mod.run_case(case)
            except Exception as e:  # harness bug: report as such, never as a verdict
                r = {'harness_error': ''.join(traceback.format_exception(type(e), e, e.__traceback__))[-3000:]}
            out.write(json.dumps({'i': i, 'r': r}, default=repr) + '\n')
            out.flush()


if __name__ == '__main__':
    main()
