"""Worker process: python -m qv.worker <check> <in.json> <out.jsonl>."""
import ctypes
import faulthandler
import importlib
import json
import os
import sys
import traceback


def install_arena_cache():
    so = os.path.join(os.path.dirname(os.path.dirname(os.path.abspath(__file__))), '.deps',
                      'arenacache.so')
    if os.environ.get('QV_NO_ARENACACHE') or not os.path.exists(so):
        return False
    try:
        ctypes.CDLL(so, mode=ctypes.RTLD_GLOBAL).arenacache_install()
        return True
    except Exception:
        return False


def main():
    check, inp, outp = sys.argv[1:4]
    import qv  # noqa: F401  (installs the arena cache)
    faulthandler.enable()
    # (no dump_traceback_later: its watchdog dump took a long-running thorough shard down with SIGSEGV; every case has its
    # own SIGALRM watchdog below and the pool has a deadline for the shard)
    sys.setrecursionlimit(3000)
    mod = importlib.import_module(f'qv.checks.{check}')
    with open(inp) as f:
        shard = json.load(f)
    if hasattr(mod, 'worker_init'):
        mod.worker_init()
    import signal

    class CaseTimeout(BaseException):
        pass

    def on_alarm(signum, frame):
        raise CaseTimeout()
    signal.signal(signal.SIGALRM, on_alarm)
    case_timeout = int(getattr(mod, 'CASE_TIMEOUT', 180))
    with open(outp, 'w') as out:
        for i, case in shard:
            try:
                signal.alarm(case_timeout)
                try:
                    r = mod.run_case(case)
                finally:
                    signal.alarm(0)
            except CaseTimeout:
                r = {'case_timeout': case_timeout, 'stack': ''.join(traceback.format_stack()[-3:])}
                if hasattr(mod, 'on_case_timeout'):
                    r = mod.on_case_timeout(case, case_timeout)
            except Exception as e:  # harness bug: report as such, never as a verdict
                r = {'harness_error': ''.join(traceback.format_exception(type(e), e, e.__traceback__))[-3000:]}
            out.write(json.dumps({'i': i, 'r': r}, default=repr) + '\n')
            out.flush()


if __name__ == '__main__':
    main()
