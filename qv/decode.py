"""Independent linear decoder of the QVM code section (only the opcode table is shared with the repo,
it *is* the ISA definition), and a parser for the assembly listing."""
import re
import struct

from . import repoimp  # noqa: F401
from qvm import instrs as qinstrs

FMT = {'UInt8': ('B', 1), 'Int16': ('h', 2), 'UInt16': ('H', 2), 'Int32': ('i', 4), 'Label': ('I', 4),
       'Float32': ('f', 4), 'Float64': ('d', 8), 'StringLiteral': ('H', 2)}


def decode(code):
    """-> list of (addr, op, [operands], size); raises ValueError on undecodable bytes."""
    out = []
    i = 0
    n = len(code)
    while i < n:
        oc = code[i]
        ins = qinstrs.op_code_to_instr.get(oc)
        if ins is None:
            raise ValueError(f'undefined opcode {oc} at {i}')
        j = i + 1
        ops = []
        for cls in ins.operands:
            f, sz = FMT[cls.__name__]
            if j + sz > n:
                raise ValueError(f'truncated operand at {i}')
            v, = struct.unpack('>' + f, code[j:j + sz])
            ops.append((cls.__name__, v))
            j += sz
        out.append((i, ins.op, ops, j - i))
        i = j
    return out


def starts(decoded):
    return {d[0] for d in decoded}


def parse_listing(listing):
    """-> list of ('label', name) | ('instr', op, [arg strings]) from the .code part of str(code)."""
    if '.code\n' not in listing:
        return []
    body = listing.split('.code\n', 1)[1]
    out = []
    for line in body.split('\n'):
        if not line.strip():
            continue
        if not line.startswith(' '):
            if line.rstrip().endswith(':'):
                out.append(('label', line.rstrip()[:-1]))
            continue
        s = line.strip()
        m = re.match(r'^(\S+)\s*(.*)$', s)
        op, rest = m.group(1), m.group(2)
        args = []
        if rest:
            if op == 'push$':
                args = [rest]
            else:
                args = [a.strip() for a in rest.split(',')]
        out.append(('instr', op, args))
    return out


def parse_disasm(text):
    """-> list of (addr, op, [arg strings], comment)"""
    out = []
    for line in text.split('\n'):
        if not line.strip():
            continue
        m = re.match(r'^([0-9a-f]{8}): (\S+)\s*(.*)$', line)
        if not m:
            out.append((None, line, [], None))
            continue
        addr = int(m.group(1), 16)
        op = m.group(2)
        rest = m.group(3)
        comment = None
        if ';' in rest:
            rest, comment = rest.split(';', 1)
            comment = comment.strip()
        args = [a.strip() for a in rest.split(',')] if rest.strip() else []
        out.append((addr, op, args, comment))
    return out
