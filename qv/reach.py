"""Reach map: which source lines of /repo (qbee/, qvm/) a workload actually executed.

`sys.monitoring` LINE events with DISABLE after the first hit of each line (so the cost is one callback per distinct
line per process).  Enabled in every process that imports `qv` when QV_REACH=<dir> is set; each process dumps its set
to <dir>/<pid>.json at exit.  `python -m qv.reach report <dir> [--repo /repo]` aggregates the dumps and lists, per
file, the executable lines never reached (grouped into ranges with the enclosing function), so that the workloads can
be extended towards behaviour nobody drives.  It is a guide for building workloads and a "did the monitor observe
anything" counter; no verdict rests on it.
"""
import atexit
import json
import os
import sys

TOOL = 3  # sys.monitoring tool id (0..5); 3 is free (debugger=0, coverage=1, profiler=2, optimizer=5)


def install(outdir, repo):
    mon = sys.monitoring
    repo = os.path.abspath(repo) + os.sep
    hits = set()
    try:
        mon.use_tool_id(TOOL, 'qv-reach')
    except ValueError:
        return False

    def on_line(code, line):
        fn = code.co_filename
        if fn.startswith(repo):
            hits.add((fn[len(repo):], line))
        return mon.DISABLE

    mon.register_callback(TOOL, mon.events.LINE, on_line)
    mon.set_events(TOOL, mon.events.LINE)

    def dump():
        try:
            os.makedirs(outdir, exist_ok=True)
            by = {}
            for f, l in hits:
                by.setdefault(f, []).append(l)
            with open(os.path.join(outdir, f'{os.getpid()}.json'), 'w') as f:
                json.dump({k: sorted(v) for k, v in by.items()}, f)
        except Exception:
            pass
    atexit.register(dump)
    return True


def executable_lines(path):
    """Lines that carry code according to the compiler (all nested code objects), minus docstring-only lines."""
    with open(path) as f:
        src = f.read()
    top = compile(src, path, 'exec')
    lines = {}
    stack = [(top, '<module>')]
    while stack:
        co, qual = stack.pop()
        for _s, _e, ln in co.co_lines():
            if ln is not None and ln not in lines:
                lines[ln] = qual
        for c in co.co_consts:
            if hasattr(c, 'co_code'):
                stack.append((c, c.co_qualname if hasattr(c, 'co_qualname') else c.co_name))
    return lines


def report(outdir, repo, pkgs=('qbee', 'qvm'), skip=('qvm/terminal.py', 'qvm/subterminal.py', 'qbee/main.py', 'qvm/run.py', 'qvm/disasm.py')):
    reached = {}
    n = 0
    for fn in os.listdir(outdir):
        if not fn.endswith('.json'):
            continue
        n += 1
        with open(os.path.join(outdir, fn)) as f:
            for k, v in json.load(f).items():
                reached.setdefault(k, set()).update(v)
    out = {'processes': n, 'files': {}}
    for pkg in pkgs:
        for fn in sorted(os.listdir(os.path.join(repo, pkg))):
            rel = f'{pkg}/{fn}'
            if not fn.endswith('.py') or rel in skip:
                continue
            ex = executable_lines(os.path.join(repo, rel))
            hit = reached.get(rel, set())
            miss = sorted(l for l in ex if l not in hit)
            out['files'][rel] = {'executable': len(ex), 'reached': len([l for l in ex if l in hit]),
                                 'unreached': [(l, ex[l]) for l in miss]}
    return out


def main(argv):
    if argv[:1] != ['report']:
        print(__doc__)
        return 2
    outdir = argv[1]
    repo = argv[3] if len(argv) > 3 and argv[2] == '--repo' else os.environ.get('QV_REPO', '/repo')
    r = report(outdir, repo)
    tot_e = tot_r = 0
    for rel, d in r['files'].items():
        tot_e += d['executable']
        tot_r += d['reached']
        print(f"{rel}: {d['reached']}/{d['executable']} lines reached")
        cur = None
        for l, q in d['unreached']:
            if cur and cur[2] == q and l - cur[1] <= 3:
                cur[1] = l
            else:
                if cur:
                    print(f'    {cur[0]}-{cur[1]}  {cur[2]}')
                cur = [l, l, q]
        if cur:
            print(f'    {cur[0]}-{cur[1]}  {cur[2]}')
    print(f"TOTAL {tot_r}/{tot_e} lines reached in {r['processes']} process dumps")
    return 0


if __name__ == '__main__':
    sys.exit(main(sys.argv[1:]))
