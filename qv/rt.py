"""Runtime layer: compile with the real compiler, run on the real VM, observe.

Everything here drives /repo's working tree; the observation points are
  * calls received by the peripherals object (``impl=``)            -> history
  * typed PRINT arguments on the operand stack at ``io terminal,print`` -> history
  * QvmCpu.halt_reason / last_trap / trapped_addr                   -> outcome
"""
import contextlib
import io
import os
import sys
import traceback

from . import repoimp  # noqa: F401
from qbee.compiler import Compiler
from qbee import exceptions as qex
from qvm.module import QModule
from qvm import machine as qmachine
from qvm import cpu as qcpu
from qvm.cpu import HaltReason
from qvm.cell import CellType
from qvm.trap import TrapCode

CONFIGS6 = [(o, g) for o in (0, 1, 2) for g in (False, True)]
REPO = repoimp.REPO


def cfg_name(cfg):
    return f"O{cfg[0]}{'g' if cfg[1] else ''}"


# --------------------------------------------------------------------------
# compile

class CompileResult:
    __slots__ = ('status', 'code', 'exc', 'err_code', 'loc', 'msg', 'sig', 'tb',
                 'modbytes', 'listing')

    def __init__(self):
        self.status = None     # ok | syntax | compile | crash
        self.code = None
        self.exc = None
        self.err_code = None
        self.loc = None
        self.msg = None
        self.sig = None
        self.tb = None
        self.modbytes = None
        self.listing = None

    def brief(self):
        if self.status == 'ok':
            return ['ok']
        if self.status == 'crash':
            return ['crash', self.sig]
        return [self.status, self.err_code, self.loc]


def innermost_repo_frame(tb):
    """(file relative to repo, function) of the innermost frame that lies in /repo."""
    last = None
    for fs in traceback.extract_tb(tb):
        fn = os.path.abspath(fs.filename)
        if fn.startswith(REPO + os.sep):
            last = (os.path.relpath(fn, REPO), fs.name)
    return last


def crash_sig(e):
    """Mechanism signature of a host exception: type + the two innermost /repo frames."""
    frames = []
    for fs in traceback.extract_tb(e.__traceback__):
        fn = os.path.abspath(fs.filename)
        if fn.startswith(REPO + os.sep):
            frames.append((os.path.relpath(fn, REPO), fs.name))
    if not frames:
        return f"{type(e).__name__}@outside-repo"
    f1 = frames[-1]
    prev = [f for f in frames[:-1] if f[1] != f1[1]]
    where = f"{f1[0]}:{f1[1]}"
    if prev:
        where = f"{prev[-1][1]}>" + where
    return f"{type(e).__name__}@{where}"


def compile_src(src, opt=0, dbg=False, want_bytes=True, want_listing=False):
    r = CompileResult()
    try:
        with contextlib.redirect_stdout(io.StringIO()):
            comp = Compiler('qvm', optimization_level=opt, debug_info=dbg)
            code = comp.compile(src)
            r.code = code
            stage = 'compile'
            if want_bytes:
                stage = 'bytes'
                r.modbytes = bytes(code)
            if want_listing:
                stage = 'listing'
                r.listing = str(code)
        r.status = 'ok'
    except qex.SyntaxError as e:
        r.status = 'syntax'
        r.err_code = 'syntax'
        r.loc = e.loc_start
        r.msg = str(e)
    except qex.CompileError as e:
        r.status = 'compile'
        r.err_code = e.code.name
        r.loc = e.loc_start
        r.msg = str(e)
    except RecursionError as e:
        r.status = 'crash'
        r.exc = 'RecursionError'
        r.sig = 'RecursionError@' + stage if 'stage' in dir() else 'RecursionError@compile'
        r.msg = 'recursion'
        r.tb = ''
    except Exception as e:  # noqa: BLE001 - the point is to observe anything
        r.status = 'crash'
        r.exc = type(e).__name__
        r.sig = crash_sig(e)
        r.msg = str(e)[:200]
        r.tb = ''.join(traceback.format_exception(type(e), e, e.__traceback__)[-6:])
    return r


def line_of(text, offset):
    """1-based line of a character offset (our own, not the repo's)."""
    if offset is None:
        return None
    return text.count('\n', 0, offset) + 1


# --------------------------------------------------------------------------
# peripherals

class ScriptExhausted(Exception):
    pass


class RecPeripherals:
    """The object given to QvmMachine(impl=...): records every call, answers from a script."""

    DEVICES = ('data', 'memory', 'pcspkr', 'rng', 'terminal', 'time', 'fs')

    def __init__(self, script=None, strict=False):
        script = script or {}
        self.h = []                        # history of events
        self.inputs = list(script.get('input', []))
        self.inkeys = list(script.get('inkey', []))
        self.rnds = list(script.get('rnd', []))
        self.timers = list(script.get('timer', []))
        self.peeks = list(script.get('peek', []))
        self.fail = script.get('fail', {})   # {"pcspkr_sound": "OP_FAILED"} device refusals
        self.ii = self.ki = self.ri = self.ti = self.pi = 0
        self.exhausted = []
        self.strict = strict
        self.cpu = None

    def _rec(self, *ev):
        self.h.append(list(ev))

    def __getattr__(self, attr):
        if attr.startswith('__'):
            raise AttributeError(attr)
        for d in self.DEVICES:
            if attr.startswith(d + '_'):
                op = attr[len(d) + 1:]

                def f(*args, _d=d, _op=op):
                    self._rec('dev', _d, _op, *[_j(a) for a in args])
                    code = self.fail.get(f'{_d}_{_op}')
                    if code:
                        from qvm.exceptions import DeviceError
                        raise DeviceError(error_msg='scripted refusal',
                                          error_code=getattr(qmachine.Device.Error, code))
                return f
        raise AttributeError(attr)

    def _next(self, lst, idx_name, default, what):
        i = getattr(self, idx_name)
        setattr(self, idx_name, i + 1)
        if i < len(lst):
            return lst[i]
        self.exhausted.append(what)
        return default

    def terminal_print(self, text):
        self._rec('out', text)

    def terminal_input(self, same_line):
        k = self.ii - len(self.inputs)
        v = self._next(self.inputs, 'ii', ','.join(['0'] * (1 + max(0, k) % 5)), 'input')
        self._rec('in', _j(same_line), v)
        if len(self.exhausted) > 200:
            raise ScriptExhausted()
        return v

    def terminal_inkey(self):
        v = self._next(self.inkeys, 'ki', '', 'inkey')
        self._rec('inkey', v)
        return v

    def rng_get_next(self):
        v = self._next(self.rnds, 'ri', 0.5, 'rnd')
        self._rec('rnd', v)
        return v

    def rng_get_with_seed(self, seed):
        v = (abs(seed) % 97) / 97.0
        self._rec('rndseed', seed, v)
        return v

    def time_get_time(self):
        v = self._next(self.timers, 'ti', 1000.0 + self.ti, 'timer')
        self._rec('timer', v)
        return v

    def memory_peek(self, offset):
        v = self._next(self.peeks, 'pi', 0, 'peek')
        self._rec('dev', 'memory', 'peek', offset, v)
        return v


def _j(v):
    if isinstance(v, (int, float, str, bool)) or v is None:
        return v
    return repr(v)


# --------------------------------------------------------------------------
# print hook: decode the tagged argument list before the device consumes it

_TYPECH = {CellType.INTEGER: '%', CellType.LONG: '&', CellType.SINGLE: '!',
           CellType.DOUBLE: '#', CellType.STRING: '$'}
_orig_exec_print = None
_orig_exec_input = None


def decode_print_args(cpu):
    st = cpu.stack
    if not st or st[-1].type != CellType.INTEGER:
        return None
    n = st[-1].value
    if n < 0 or n + 1 > len(st):
        return None
    args = st[len(st) - 1 - n:len(st) - 1]
    items = []
    i = 0
    try:
        while i < len(args):
            tag = args[i].value
            if tag == 0:
                a = args[i + 1]
                items.append(['v', _TYPECH.get(a.type, str(a.type)), a.value])
                i += 2
            elif tag == 1:
                items.append(';')
                i += 1
            elif tag == 2:
                items.append(',')
                i += 1
            elif tag == 3:
                a = args[i + 1]
                items.append(['fmt', a.value])
                i += 2
            else:
                items.append(['?', repr(tag)])
                i += 1
    except Exception:  # malformed protocol: report what we have
        items.append(['malformed'])
    return items


def install_hooks():
    """Class-level wrappers on the device handlers (idempotent)."""
    global _orig_exec_print, _orig_exec_input
    if _orig_exec_print is not None:
        return
    TD = qmachine.TerminalDevice
    _orig_exec_print = TD._exec_print
    _orig_exec_input = TD._exec_input

    def _exec_print(self):
        impl = self.impl
        if isinstance(impl, RecPeripherals):
            impl._rec('print', decode_print_args(self.cpu))
        return _orig_exec_print(self)

    def _exec_input(self):
        impl = self.impl
        if isinstance(impl, RecPeripherals):
            d0 = len(self.cpu.stack)
            impl._rec('input_begin', d0)
            try:
                return _orig_exec_input(self)
            finally:
                impl._rec('input_end', len(self.cpu.stack))
        return _orig_exec_input(self)

    TD._exec_print = _exec_print
    TD._exec_input = _exec_input

    C = qcpu.QvmCpu
    for nm in ('_exec_errres', '_exec_errresn'):
        orig = getattr(C, nm)

        def wrapped(self, _orig=orig):
            self._qv_resumed = getattr(self, '_qv_resumed', 0) + 1
            return _orig(self)
        setattr(C, nm, wrapped)


# --------------------------------------------------------------------------
# run

class RunResult:
    __slots__ = ('history', 'outcome', 'ticks', 'cpu', 'machine', 'exhausted', 'crash_tb',
                 'trap_line', 'stdout', 'resumed')

    def brief(self):
        return {'outcome': self.outcome, 'ticks': self.ticks, 'events': len(self.history)}


def trap_class(cpu):
    code = cpu.last_trap
    if code is None:
        return None
    name = code.name
    if code == TrapCode.DEVICE_ERROR:
        ec = cpu.last_trap_kwargs.get('error_code')
        name += ':' + (ec.name if hasattr(ec, 'name') else str(ec))
    # TrapCode.INVALID_GLOBAL_VAR_IDX is an alias of INVALID_LOCAL_VAR_IDX (same value)
    return name


MACHINE_FAULTS = {'TYPE_MISMATCH', 'STACK_EMPTY', 'INVALID_OP_CODE', 'INVALID_LOCAL_VAR_IDX',
                  'INVALID_GLOBAL_VAR_IDX', 'NULL_REFERENCE', 'INVALID_DIMENSIONS',
                  'UNINITIALIZED_MEM', 'DEVICE_ERROR:UNKNOWN_OP', 'DEVICE_NOT_AVAILABLE'}


def load_module(modbytes):
    with contextlib.redirect_stdout(io.StringIO()):
        return QModule.parse(modbytes)


def make_machine(module, script=None, cpu_class=None):
    install_hooks()
    impl = RecPeripherals(script)
    old = qmachine.QvmCpu
    if cpu_class is not None:
        qmachine.QvmCpu = cpu_class
    try:
        m = qmachine.QvmMachine(module, impl=impl)
    finally:
        qmachine.QvmCpu = old
    impl.cpu = m.cpu
    return m, impl


def run_module(module, script=None, max_ticks=200000, cpu_class=None, on_tick=None,
               keep=False):
    """Run to completion with tick(); never lets a host exception escape unobserved."""
    r = RunResult()
    r.crash_tb = None
    r.trap_line = None
    out = io.StringIO()
    m, impl = make_machine(module, script, cpu_class)
    cpu = m.cpu
    ticks = 0
    try:
        with contextlib.redirect_stdout(out):
            while not cpu.halted:
                if cpu.pc >= len(module.code):
                    break
                if ticks >= max_ticks:
                    break
                if on_tick is not None:
                    on_tick(cpu, ticks)
                cpu.tick()
                ticks += 1
        if cpu.halted:
            if cpu.halt_reason == HaltReason.TRAP:
                r.outcome = ['trap', trap_class(cpu)]
                if module.debug_info is not None:
                    try:
                        st = module.debug_info.find_stmt(cpu.trapped_addr, cpu)
                        r.trap_line = getattr(st, 'source_start_line', None)
                    except Exception:
                        r.trap_line = 'find_stmt-crash'
            elif cpu.halt_reason == HaltReason.INSTRUCTION:
                r.outcome = ['halt']
            elif cpu.halt_reason == HaltReason.END_OF_CODE:
                r.outcome = ['end_of_code']
            else:
                r.outcome = ['bad_halt_reason', str(cpu.halt_reason)]
        elif ticks >= max_ticks:
            r.outcome = ['tick_budget']
        else:
            r.outcome = ['end_of_code']
    except ScriptExhausted:
        r.outcome = ['script_exhausted']
    except RecursionError:
        r.outcome = ['crash', 'RecursionError@run']
        r.crash_tb = 'recursion'
    except Exception as e:  # noqa: BLE001
        r.outcome = ['crash', crash_sig(e)]
        r.crash_tb = ''.join(traceback.format_exception(type(e), e, e.__traceback__)[-6:])
    r.history = impl.h
    r.ticks = ticks
    r.exhausted = impl.exhausted
    r.stdout = out.getvalue()
    r.resumed = getattr(cpu, '_qv_resumed', 0)
    if keep:
        r.cpu = cpu
        r.machine = m
    else:
        r.cpu = None
        r.machine = None
    return r


def protocol_history(h):
    """History without raw output text (C01: protocol only; text is C16/C17's)."""
    return [e for e in h if e[0] not in ('out', 'input_begin', 'input_end')]


def text_history(h):
    return [e for e in h if e[0] not in ('print', 'input_begin', 'input_end')]


def sections(modbytes):
    """{section id: raw bytes} from our own walk over the container."""
    import struct
    out = {}
    i = 0
    while i < len(modbytes):
        t = modbytes[i]
        ln, = struct.unpack('>I', modbytes[i + 1:i + 5])
        out[t] = modbytes[i + 5:i + 5 + ln]
        i += 5 + ln
    return out


# --------------------------------------------------------------------------
# nested wall-clock guard (the verdict it yields is "inconclusive"/skip, never a violation by itself)

class TimeLimit(BaseException):
    pass


@contextlib.contextmanager
def time_limit(seconds):
    import signal
    import time as _t

    def h(signum, frame):
        raise TimeLimit()
    old_h = signal.getsignal(signal.SIGALRM)
    old_left = signal.alarm(0)
    t0 = _t.time()
    signal.signal(signal.SIGALRM, h)
    signal.alarm(int(seconds))
    try:
        yield
    finally:
        signal.alarm(0)
        signal.signal(signal.SIGALRM, old_h)
        if old_left:
            signal.alarm(max(1, int(old_left - (_t.time() - t0))))
