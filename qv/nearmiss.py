"""Near-miss programs: argument-passing forms whose only possible static error is a type disagreement between the
location the caller names and the parameter that receives it by reference.

Used twice: C05 demands that the mismatching ones are rejected (TYPE_MISMATCH on the line of the call) and the matching
controls accepted; C03 runs every program the compiler *accepts* under the CPU monitors - on the unchanged tree those
are the controls only, but a compiler that lets a mismatch through is judged on what its code then does to typed
storage.  Every text is fixed (no randomness), so evidence counts are reproducible.
"""

TN = {'%': 'a', '&': 'b', '!': 'c', '#': 'd', '$': 'e'}
HEAD = ['TYPE zt', 'fa AS INTEGER', 'fb AS LONG', 'fc AS SINGLE', 'fd AS DOUBLE', 'fe AS STRING', 'END TYPE',
        'TYPE zu', 'ga AS LONG', 'gb AS INTEGER', 'END TYPE']
DECLS = ['DIM zr AS zt', 'DIM zq(1 TO 2) AS zt', 'DIM zw AS zu', 'DIM zwq(1 TO 2) AS zu']


def _init(loc, t):
    return f'{loc} = "v"' if t == '$' else f'{loc} = 5'


def _body(pt, name='p'):
    p = f'{name}{pt}'
    if pt == '$':
        return [f'{p} = {p} + "+"', f'PRINT {p}']
    return [f'{p} = {p} + 1', f'PRINT {p}']


def scalar_family():
    """(tag, text, must_reject, call_line)"""
    out = []
    for at in '%&!#$':
        locs = {
            'var': (f'zx{at}', []),
            'elem': (f'za{at}(2)', [f'DIM za{at}(1 TO 3)']),
            'field': (f'zr.f{TN[at]}', []),
            'recelem': (f'zq(2).f{TN[at]}', []),
        }
        for lk, (loc, extra) in locs.items():
            for pt in '%&!#$':
                for style in ('bare', 'call', 'func'):
                    lines = HEAD + DECLS + extra + ['DIM zguard1 AS LONG', _init(loc, at), 'zguard1 = 77']
                    if style == 'bare':
                        lines.append(f'zcallee {loc}')
                    elif style == 'call':
                        lines.append(f'CALL zcallee({loc})')
                    else:
                        lines.append(f'zres% = zfun%({loc})')
                    call_line = len(lines)
                    lines += [f'PRINT {loc}', 'PRINT zguard1', 'PRINT zr.fa; zr.fb; zr.fc; zr.fd; zr.fe', 'END']
                    if style == 'func':
                        lines += [f'FUNCTION zfun% (p{pt})'] + _body(pt) + ['zfun% = 1', 'END FUNCTION']
                    else:
                        lines += [f'SUB zcallee (p{pt})'] + _body(pt) + ['END SUB']
                    out.append((f'scalar|{lk}|{at}->{pt}|{style}', '\n'.join(lines) + '\n', at != pt, call_line))
    return out


def array_family():
    out = []
    for at in '%&!#$':
        for pt in '%&!#$':
            for style in ('bare', 'call'):
                lines = HEAD + DECLS + [f'DIM za{at}(1 TO 3)', 'DIM zguard1 AS LONG', _init(f'za{at}(1)', at), 'zguard1 = 77']
                lines.append(f'zcallee za{at}()' if style == 'bare' else f'CALL zcallee(za{at}())')
                call_line = len(lines)
                lines += [f'PRINT za{at}(1); za{at}(3)', 'PRINT zguard1', 'END', f'SUB zcallee (p{pt}())']
                lines += ([f'p{pt}(1) = p{pt}(1) + "+"'] if pt == '$' else [f'p{pt}(1) = p{pt}(1) + 1']) + [f'PRINT p{pt}(1)', 'END SUB']
                out.append((f'array|{at}->{pt}|{style}', '\n'.join(lines) + '\n', at != pt, call_line))
    return out


def record_family():
    out = []
    # (argument text, parameter declaration, must_reject)
    combos = [
        ('zr', 'p AS zt', False), ('zq(1)', 'p AS zt', False), ('zw', 'p AS zt', True), ('zwq(2)', 'p AS zt', True),
        ('zr', 'p AS zu', True), ('zw', 'p AS zu', False), ('zr.fa', 'p AS zt', True), ('zr.fb', 'p AS zu', True),
        ('zr', 'p%', True), ('zr', 'p&', True), ('zw', 'p$', True), ('zq(1)', 'p#', True),
        ('zq()', 'p() AS zt', False), ('zq()', 'p() AS zu', True), ('zwq()', 'p() AS zt', True), ('zq()', 'p%()', True),
        ('zwq()', 'p() AS zu', False), ('zr', 'p() AS zt', True), ('zq()', 'p AS zt', True),
    ]
    for arg, pdecl, rej in combos:
        for style in ('bare', 'call'):
            lines = HEAD + DECLS + ['DIM zguard1 AS LONG', 'zr.fa = 1', 'zr.fb = 2', 'zw.ga = 3', 'zw.gb = 4', 'zq(1).fb = 6',
                                    'zwq(2).ga = 7', 'zguard1 = 77']
            lines.append(f'zcallee {arg}' if style == 'bare' else f'CALL zcallee({arg})')
            call_line = len(lines)
            lines += ['PRINT zr.fa; zr.fb; zw.ga; zw.gb; zq(1).fb; zwq(2).ga', 'PRINT zguard1', 'END', f'SUB zcallee ({pdecl})']
            pname = pdecl.split()[0]
            if 'AS zt' in pdecl:
                el = 'p(1)' if pname.endswith('()') else 'p'
                lines += [f'{el}.fb = {el}.fb + 1', f'{el}.fe = "s"', f'PRINT {el}.fa; {el}.fb']
            elif 'AS zu' in pdecl:
                el = 'p(2)' if pname.endswith('()') else 'p'
                lines += [f'{el}.ga = {el}.ga + 1', f'{el}.gb = 9', f'PRINT {el}.ga; {el}.gb']
            elif pname.endswith('()'):
                lines += [f'{pname[:-2]}(1) = 1', f'PRINT {pname[:-2]}(1)']
            elif pname.endswith('$'):
                lines += ['p$ = p$ + "+"', 'PRINT p$']
            else:
                lines += [f'{pname} = {pname} + 1', f'PRINT {pname}']
            lines.append('END SUB')
            out.append((f'record|{arg}->{pdecl}|{style}', '\n'.join(lines) + '\n', rej, call_line))
    return out


_ALL = None


def all_programs():
    global _ALL
    if _ALL is None:
        _ALL = scalar_family() + array_family() + record_family()
    return _ALL
