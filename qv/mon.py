"""MonitoredCpu: a QvmCpu subclass with per-tick hooks, plus class-level cell hooks and the built-in monitors.

Instrumentation is applied from the harness only:
  * qvm.machine.QvmCpu is swapped for MonitoredCpu while the machine is constructed (rt.make_machine);
  * MemorySegment.get_cell/set_cell are wrapped once at class level and dispatch to the monitors of the
    CPU that is currently ticking (single-threaded, so "current" is well defined).
"""
from . import repoimp  # noqa: F401
from qvm import cpu as qcpu
from qvm.cell import CellType, CellValue
from qvm.cpu import QvmCpu, MemorySegment, CallFrame

from . import decode

_CURRENT = [None]      # the MonitoredCpu whose tick() is executing
_patched = [False]

TYPE_OF_SUFFIX = {'%': CellType.INTEGER, '&': CellType.LONG, '!': CellType.SINGLE, '#': CellType.DOUBLE,
                  '$': CellType.STRING, '@': CellType.REFERENCE}


def _patch_segments():
    if _patched[0]:
        return
    _patched[0] = True
    orig_get = MemorySegment.get_cell
    orig_set = MemorySegment.set_cell

    def get_cell(self, idx):
        c = _CURRENT[0]
        if c is not None:
            for m in c.monitors:
                m.on_cell_read(c, self, idx)
        return orig_get(self, idx)

    def set_cell(self, idx, value):
        c = _CURRENT[0]
        if c is not None:
            try:
                old = self.cells[idx] if -len(self.cells) <= idx < len(self.cells) else 'OUT'
            except Exception:
                old = 'OUT'
            for m in c.monitors:
                m.on_cell_write(c, self, idx, old, value)
        return orig_set(self, idx, value)

    MemorySegment.get_cell = get_cell
    MemorySegment.set_cell = set_cell


class Monitor:
    name = 'monitor'

    def __init__(self):
        self.viol = []       # list of (sig, msg)
        self.count = 0       # evaluations of the monitor's condition

    def report(self, sig, msg):
        if len(self.viol) < 20:
            self.viol.append((sig, msg))

    def start(self, cpu):
        pass

    def before(self, cpu, addr, op, operands):
        pass

    def after(self, cpu, addr, op, operands):
        pass

    def on_trap(self, cpu, code):
        pass

    def on_cell_read(self, cpu, seg, idx):
        pass

    def on_cell_write(self, cpu, seg, idx, old, new):
        pass

    def finish(self, cpu):
        pass


class MonitoredCpu(QvmCpu):
    monitor_factory = None     # callable(cpu) -> list of Monitor, set by the harness before construction

    def __init__(self, module):
        super().__init__(module)
        _patch_segments()
        self.monitors = list(type(self).monitor_factory(self)) if type(self).monitor_factory else []
        self.decoded = None
        try:
            self.decoded = decode.decode(bytes(module.code))
            self.starts = decode.starts(self.decoded)
            self.instr_at = {d[0]: d for d in self.decoded}
        except ValueError:
            self.starts = None
            self.instr_at = {}
        self.tick_no = 0
        for m in self.monitors:
            m.start(self)

    def tick(self):
        if self.received_keyboard_interrupt or self.halted:
            return super().tick()
        addr = self.pc
        d = self.instr_at.get(addr)
        op, operands = (d[1], d[2]) if d else (None, [])
        prev = _CURRENT[0]
        _CURRENT[0] = self
        try:
            for m in self.monitors:
                m.before(self, addr, op, operands)
            trap_before = self.last_trap
            halted_before = self.halted
            try:
                super().tick()
            finally:
                self.tick_no += 1
            for m in self.monitors:
                m.after(self, addr, op, operands)
        finally:
            _CURRENT[0] = prev

    def _trap(self, code, **kwargs):
        for m in self.monitors:
            m.on_trap(self, code)
        return super()._trap(code, **kwargs)


def with_monitors(factory):
    """Return a MonitoredCpu subclass bound to a monitor factory (so nested uses do not interfere)."""
    return type('MonitoredCpuBound', (MonitoredCpu,), {'monitor_factory': staticmethod(factory)})


# ------------------------------------------------------------------------------------------------ monitors

class InstrBoundary(Monitor):
    """pc is always the start of an instruction (or the end of the code)."""
    name = 'instr-boundary'

    def after(self, cpu, addr, op, operands):
        if cpu.starts is None:
            return
        self.count += 1
        if cpu.pc not in cpu.starts and cpu.pc != len(cpu.module.code):
            if cpu.halted:
                return
            self.report('C03:pc-off-boundary', f'after {op} at {addr:#x} pc={cpu.pc:#x} is not an instruction start')


class SegmentBounds(Monitor):
    """Every cell access satisfies 0 <= idx < size (Python's negative indexing would alias silently)."""
    name = 'segment-bounds'

    def on_cell_read(self, cpu, seg, idx):
        self.count += 1
        if not isinstance(idx, int) or idx < 0 or idx >= len(seg.cells):
            self.report('C03:cell-access-outside-segment', f'read of cell {idx} in {seg!r} (size {len(seg.cells)}) '
                        f'at pc {cpu.prev_pc:#x}')

    def on_cell_write(self, cpu, seg, idx, old, new):
        self.count += 1
        if not isinstance(idx, int) or idx < 0 or idx >= len(seg.cells):
            self.report('C03:cell-access-outside-segment', f'write of cell {idx} in {seg!r} (size {len(seg.cells)}) '
                        f'at pc {cpu.prev_pc:#x}')


class CellMonomorphism(Monitor):
    """A cell holds values of one CellType for its lifetime; typed reads push their suffix type."""
    name = 'cell-monomorphism'

    def __init__(self):
        super().__init__()
        self.types = {}
        self.keep = []
        self.typed_reads = 0

    def on_cell_write(self, cpu, seg, idx, old, new):
        if new is None or not isinstance(new, CellValue):
            return
        self.count += 1
        key = (id(seg), idx)
        t = self.types.get(key)
        if t is None:
            self.types[key] = new.type
            self.keep.append(seg)
        elif t != new.type:
            d = cpu.instr_at.get(cpu.prev_pc)
            self.report(f'C03:cell-type-changed:{t.name}->{new.type.name}',
                        f'cell {idx} of {seg!r} held {t.name}, now stores {new.type.name} '
                        f'({d[1] if d else "?"} at {cpu.prev_pc:#x})')

    def after(self, cpu, addr, op, operands):
        if op is None:
            return
        if (op.startswith(('readl', 'readg', 'readidx', 'deref'))) and op[-1] in TYPE_OF_SUFFIX:
            if cpu.halted and cpu.halt_reason.name == 'TRAP':
                return
            if cpu.last_trap is not None and cpu.pc != addr + cpu.instr_at[addr][3]:
                return  # trapped into a handler
            self.typed_reads += 1
            if not cpu.stack:
                return
            top = cpu.stack[-1]
            want = TYPE_OF_SUFFIX[op[-1]]
            if top.type != want:
                self.report(f'C03:typed-read-wrong-type:{op}:{top.type.name}',
                            f'{op} at {addr:#x} pushed a {top.type.name} value')


class ReadsWriteNothing(Monitor):
    """During read*/readidx*/deref*/lbound/ubound the only permitted cell change is None -> default at the cell read."""
    name = 'reads-write-nothing'

    def __init__(self):
        super().__init__()
        self.active = None
        self.writes = []

    def before(self, cpu, addr, op, operands):
        self.active = None
        if op is None:
            return
        if op.startswith(('readl', 'readg')) and not op.startswith('readidx'):
            seg = cpu.cur_frame if op.startswith('readl') else cpu.globals_segment
            self.active = (op, seg, operands[0][1])
        elif op.startswith('readidx'):
            seg = cpu.cur_frame if op.startswith('readidxl') else cpu.globals_segment
            self.active = (op, seg, operands[0][1] + operands[1][1])
        elif op.startswith('deref'):
            if cpu.stack and cpu.stack[-1].type == CellType.REFERENCE:
                ref = cpu.stack[-1].value
                self.active = (op, ref.segment, ref.index)
            else:
                self.active = (op, None, None)
        elif op in ('lbound', 'ubound', 'arridx'):
            self.active = (op, None, None)
        self.writes = []

    def on_cell_write(self, cpu, seg, idx, old, new):
        if self.active is not None:
            self.writes.append((seg, idx, old, new))

    def after(self, cpu, addr, op, operands):
        if self.active is None:
            return
        self.count += 1
        op, seg, idx = self.active
        self.active = None
        for wseg, widx, old, new in self.writes:
            ok = (wseg is seg and widx == idx and old is None and isinstance(new, CellValue)
                  and new.value in (0, 0.0, ''))
            if not ok:
                self.report(f'C04:read-wrote-cell:{op.rstrip("%&!#$@")}',
                            f'{op} at {addr:#x} read cell {idx} but wrote cell {widx} of {wseg!r} '
                            f'(old={old}, new={new})')


class BranchCoverage(Monitor):
    name = 'branch-coverage'

    def __init__(self):
        super().__init__()
        self.seen = {}

    def after(self, cpu, addr, op, operands):
        if op == 'jz':
            taken = cpu.pc == operands[0][1]
            self.seen.setdefault(addr, set()).add(taken)
            self.count += 1


class StmtBoundaryDepth(Monitor):
    """With -g: at the start of every non-empty statement record of the current routine the operand stack
    depth equals the depth at routine entry plus one entry per active GOSUB."""
    name = 'stmt-boundary-depth'

    def __init__(self):
        super().__init__()
        self.frames = []         # stack of dict(base=depth, gosubs=int, frame=CallFrame)
        self.stmt_starts = None
        self.routine_entries = set()
        self.suspended = False   # between a trap dispatched to a handler and errres/errresn

    def start(self, cpu):
        di = cpu.module.debug_info
        if di is None:
            return
        self.stmt_starts = {}
        for rec in di.stmts:
            if rec.end_offset - rec.start_offset > 0:
                if type(rec.node).__name__.endswith('Clause'):
                    # CASE clauses get records of their own but are parts of one CASE statement: the
                    # result of the previous clause is legitimately on the stack when the next one starts
                    continue
                d = cpu.instr_at.get(rec.start_offset)
                if d is not None and d[1] == 'frame':
                    continue
                self.stmt_starts.setdefault(rec.start_offset, rec)
        for d in cpu.decoded or []:
            if d[1] == 'frame':
                self.routine_entries.add(d[0])

    def on_trap(self, cpu, code):
        # ON ERROR RESUME NEXT resumes inside _trap itself, so nothing to suspend there
        if cpu.trap_target is not None and cpu.trap_target != 'next' and not cpu.error_handler_active:
            self.suspended = True

    def before(self, cpu, addr, op, operands):
        if self.stmt_starts is None or self.suspended or not self.frames:
            return
        if addr in self.stmt_starts:
            fr = self.frames[-1]
            if fr['frame'] is not cpu.cur_frame:
                return
            self.count += 1
            want = fr['base'] + fr['gosubs']
            if len(cpu.stack) != want:
                rec = self.stmt_starts[addr]
                self.report('C03:stack-depth-at-statement',
                            f'at statement on line {rec.source_start_line} (pc {addr:#x}) depth {len(cpu.stack)} '
                            f'!= entry depth {fr["base"]} + {fr["gosubs"]} active GOSUBs')

    def after(self, cpu, addr, op, operands):
        if op == 'frame':
            self.frames.append({'base': len(cpu.stack), 'gosubs': 0, 'frame': cpu.cur_frame})
        elif op in ('ret', 'retv'):
            if self.frames and not (cpu.halted and cpu.halt_reason.name == 'TRAP'):
                self.frames.pop()
        elif op == 'call':
            if operands[0][1] not in self.routine_entries and self.frames and cpu.pc == operands[0][1]:
                self.frames[-1]['gosubs'] += 1
        elif op == 'ijmp':
            if self.frames and self.frames[-1]['gosubs'] > 0:
                self.frames[-1]['gosubs'] -= 1
        elif op == 'pop':
            # RETURN <label> = pop; jmp
            nxt = cpu.instr_at.get(cpu.pc)
            if nxt and nxt[1] == 'jmp' and self.frames and self.frames[-1]['gosubs'] > 0:
                self.frames[-1]['gosubs'] -= 1
        elif op in ('errres', 'errresn'):
            self.suspended = False


class StackValueContract(Monitor):
    """Every operand-stack entry is a CellValue whose value its type can hold (checked every 16 ticks + at end)."""
    name = 'stack-value-contract'

    def _check(self, cpu):
        from qbee import expr
        m = {CellType.INTEGER: expr.Type.INTEGER, CellType.LONG: expr.Type.LONG, CellType.SINGLE: expr.Type.SINGLE,
             CellType.DOUBLE: expr.Type.DOUBLE, CellType.STRING: expr.Type.STRING}
        for c in cpu.stack:
            self.count += 1
            if not isinstance(c, CellValue):
                self.report('C03:stack-entry-not-a-cell', f'{c!r}')
                continue
            t = m.get(c.type)
            if t is not None:
                v = c.value
                if isinstance(v, float) and v != v:
                    continue
                if not t.can_hold(v) or (c.type in (CellType.INTEGER, CellType.LONG) and not isinstance(v, int)):
                    self.report(f'C03:stack-value-outside-type:{c.type.name}', f'{c!r} on the operand stack')

    def after(self, cpu, addr, op, operands):
        if cpu.tick_no % 16 == 0:
            self._check(cpu)

    def finish(self, cpu):
        self._check(cpu)


class DeclaredTypes(Monitor):
    """With -g: every value stored into a scalar, record field or static-array element of a frame or of the global
    area has the declared type of that location (layout model rebuilt from the symbol tables in the debug info)."""
    name = 'declared-types'
    CT = {'integer': CellType.INTEGER, 'long': CellType.LONG, 'single': CellType.SINGLE, 'double': CellType.DOUBLE,
          'string': CellType.STRING}

    def __init__(self):
        super().__init__()
        self.frame_layout = {}     # code_start -> {idx: CellType}
        self.global_layout = None
        self.unknown = 0

    def expand(self, ctx, t, out, base):
        """Append expected cell types of one variable of type t starting at cell index base; returns size."""
        if t.is_array:
            static = not t.is_nodim_array
            if static:
                try:
                    static = all(d.lbound.is_const and d.ubound.is_const for d in t.array_dims)
                except Exception:
                    static = False
            if not static:
                out[base] = CellType.REFERENCE
                return 1
            n = 1
            for d in t.array_dims:
                n *= int(round(d.ubound.eval())) - int(round(d.lbound.eval())) + 1
            hdr = 3 + 2 * len(t.array_dims)
            for k in range(1, hdr):
                out[base + k] = CellType.LONG
            pos = base + hdr
            for _ in range(n):
                pos += self.expand(ctx, t.array_base_type, out, pos)
            return pos - base
        if t.is_user_defined:
            pos = base
            for ft in ctx.user_types[t.user_type_name].fields.values():
                pos += self.expand(ctx, ft, out, pos)
            return pos - base
        ct = self.CT.get(t.name)
        if ct is not None:
            out[base] = ct
        return 1

    def start(self, cpu):
        di = cpu.module.debug_info
        if di is None:
            return
        try:
            ctx = type('Ctx', (), {'user_types': di.user_types})()
            g = {}
            pos = 0
            for name, t in di.global_vars.items():
                pos += self.expand(ctx, t, g, pos)
            self.global_layout = g
            routines = {'_main': di.main_routine}
            for name, rec in di.routines.items():
                routines[name] = rec.node.routine
            frames = [d for d in (cpu.decoded or []) if d[1] == 'frame']
            # main's frame is the first frame instruction; the others are found through the routine records
            starts = {}
            if frames:
                starts['_main'] = frames[0][0] + frames[0][3]
            for name, rec in di.routines.items():
                d = cpu.instr_at.get(rec.start_offset)
                if d and d[1] == 'frame':
                    starts[name] = rec.start_offset + d[3]
            for name, routine in routines.items():
                if name not in starts:
                    continue
                lay = {}
                pos = 0
                for pn in routine.params:
                    lay[pos] = CellType.REFERENCE
                    pos += 1
                for vn, t in routine.local_vars.items():
                    pos += self.expand(ctx, t, lay, pos)
                self.frame_layout[starts[name]] = lay
        except Exception as e:  # noqa: BLE001  - layout could not be rebuilt: the monitor stays silent and says so
            self.frame_layout = {}
            self.global_layout = None
            self.unknown = -1

    def on_cell_write(self, cpu, seg, idx, old, new):
        if new is None or not isinstance(new, CellValue):
            return
        if seg is cpu.globals_segment:
            lay = self.global_layout
        elif isinstance(seg, CallFrame):
            lay = self.frame_layout.get(seg.code_start)
            if lay is not None and idx >= seg.original_size:
                return          # temporaries of by-value arguments
        else:
            return
        if lay is None:
            return
        want = lay.get(idx)
        if want is None:
            self.unknown += 1
            return
        self.count += 1
        if new.type != want:
            d = cpu.instr_at.get(cpu.prev_pc)
            self.report(f'C03:stored-value-not-of-declared-type:{want.name}<-{new.type.name}',
                        f'cell {idx} of {seg!r} is declared {want.name}, {d[1] if d else "?"} at {cpu.prev_pc:#x} stores '
                        f'{new.type.name}')


def default_monitors():
    return [InstrBoundary(), SegmentBounds(), CellMonomorphism(), ReadsWriteNothing(), BranchCoverage(),
            StmtBoundaryDepth(), StackValueContract(), DeclaredTypes()]
