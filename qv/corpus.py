"""The repository's own 329 snippets (read-only) as extra inputs for differential checks."""
import glob
import os
import re

from .repoimp import REPO


def load_repo_snippets():
    """-> list of dict(src, expect, file, idx, rnd, inkey, timer). Own loader for the .test format."""
    out = []
    for fn in sorted(glob.glob(os.path.join(REPO, 'tests', 'test_cases', '*.test'))):
        with open(fn) as f:
            text = f.read()
        lines = text.split('\n')
        glob_expect = None
        if lines and lines[0].startswith('#'):
            glob_expect = lines[0][1:].strip().split()[0] if lines[0][1:].strip() else None
            lines = lines[1:]
        body = '\n'.join(lines)
        for idx, case in enumerate(re.split(r'^===[ \t]*$', body, flags=re.M)):
            parts = re.split(r'^---[ \t]*$', case, maxsplit=1, flags=re.M)
            src = parts[0].strip('\n') + '\n'
            if not src.strip():
                continue
            opts = parts[1] if len(parts) > 1 else ''
            expect = glob_expect
            d = {'rnd': [], 'inkey': [], 'timer': []}
            for ol in opts.split('\n'):
                ol = ol.strip()
                m = re.match(r'^(success|trap|syntaxerror|compileerror)\b', ol)
                if m:
                    expect = m.group(1)
                m = re.match(r'^trap:', ol)
                if m:
                    expect = 'trap'
                for k in ('rnd', 'timer'):
                    m = re.match(rf'^{k}:\s*(.*)$', ol)
                    if m:
                        try:
                            d[k] = [float(x) for x in re.split(r'[,\s]+', m.group(1).strip()) if x]
                        except ValueError:
                            pass
            out.append({'src': src, 'expect': expect, 'file': os.path.basename(fn), 'idx': idx,
                        **d})
    return out
