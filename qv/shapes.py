"""Degenerate control flow: every block kind with empty bodies in every arrangement, jumps to the following line, EXIT as
the last statement of a loop - the shapes where the code generator emits jump-to-next/label-only sequences and the
peephole rules and debug markers interact.  Each program places the construct at module level, inside a loop (so a
leaked operand accumulates), and inside a GOSUB routine / SUB / FUNCTION (so the next return pops whatever was left).

Deterministic enumeration; `programs()` returns (tag, text).  Used by C02 (level differential), C03 (CPU monitors at all
six configurations), C08 (-g differential) and C11 (debug-map structure).
"""
import itertools

# conditions: variables (never folded) and constants (folded at -O1+)
CONDS = {'vt': 'zt%', 'vf': 'zf%', 'c1': '1', 'c0': '0', 'cmp': 'zv% = 2',
         'v2': 'zv%', 'fl': 'zh!', 'c5': '5',          # true values other than -1 (2, 0.5, 5)
         # conditions whose evaluation is observable: a FUNCTION that prints, a run-time error, the first use of an implicit array
         'fn': 'zprobe%(1)', 'fn0': 'zprobe%(0)', 'trap': '10 \\ zf%', 'imp': 'zimp{n}(2) = 0'}

# templates: (name, text with {c} condition, {X}/{Y}/{Z} body slots, {n} unique number)
TEMPLATES = [
    ('if', 'IF {c} THEN\n{X}END IF\n'),
    ('if-else', 'IF {c} THEN\n{X}ELSE\n{Y}END IF\n'),
    ('if-elseif', 'IF {c} THEN\n{X}ELSEIF zv% = 2 THEN\n{Y}END IF\n'),
    ('if-elseif-else', 'IF {c} THEN\n{X}ELSEIF zv% = 3 THEN\n{Y}ELSE\n{Z}END IF\n'),
    ('if-elseif2', 'IF {c} THEN\n{X}ELSEIF zf% THEN\n{Y}ELSEIF zt% THEN\n{Z}END IF\n'),
    ('select', 'SELECT CASE zv%\nCASE 1\n{X}CASE 2, 3\n{Y}END SELECT\n'),
    ('select-else', 'SELECT CASE zv%\nCASE 1\n{X}CASE ELSE\n{Y}END SELECT\n'),
    ('select-range', 'SELECT CASE zv%\nCASE 5 TO 9\n{X}CASE IS < 3\n{Y}CASE ELSE\n{Z}END SELECT\n'),
    ('select-only-else', 'SELECT CASE zv%\nCASE ELSE\n{X}END SELECT\n'),
    ('select-str', 'SELECT CASE zs$\nCASE "a"\n{X}CASE "b" TO "c"\n{Y}END SELECT\n'),
    ('for', 'FOR zi{n}% = 1 TO 2\n{X}NEXT\n'),
    ('for-zero-trip', 'FOR zi{n}% = 2 TO 1\n{X}NEXT\n'),
    ('for-step', 'FOR zi{n}% = 2 TO 1 STEP -1\n{X}NEXT zi{n}%\n'),
    ('while-once', 'WHILE ({c}) AND zt%\n{X}zt% = 0\nWEND\nzt% = -1\n'),
    ('while-var', 'zw{n}% = 0\nWHILE zw{n}% < 2\nzw{n}% = zw{n}% + 1\n{X}WEND\n'),
    ('do-until-post', 'DO\n{X}LOOP UNTIL 1\n'),
    ('do-until-post-var', 'DO\n{X}LOOP UNTIL zt%\n'),
    ('do-while-pre', 'DO WHILE zf%\n{X}LOOP\n'),
    ('do-while-pre-const', 'DO WHILE 0\n{X}LOOP\n'),
    ('do-until-pre', 'DO UNTIL zt%\n{X}LOOP\n'),
    ('do-while-post', 'DO\n{X}LOOP WHILE zf%\n'),
    ('do-exit', 'DO\n{X}EXIT DO\nLOOP\n'),
    ('for-exit', 'FOR zi{n}% = 1 TO 3\n{X}EXIT FOR\nNEXT\n'),
    ('for-exit-if', 'FOR zi{n}% = 1 TO 3\nIF {c} THEN EXIT FOR\n{X}NEXT\n'),
    ('goto-next', 'GOTO zl{n}\nzl{n}:\n{X}'),
    ('if-goto-next', 'IF {c} THEN GOTO zl{n}\nzl{n}:\n{X}'),
    ('if-goto-next-else', 'IF {c} THEN GOTO zl{n} ELSE GOTO zl{n}\nzl{n}:\n{X}'),
    ('if-line-empty-then', 'IF {c} THEN zq% = zq% ELSE {S}\n'),
    ('if-line', 'IF {c} THEN {S}\n'),
    ('if-line-else', 'IF {c} THEN {S} ELSE {S2}\n'),
    ('if-line-nested', 'IF {c} THEN IF zv% = 2 THEN {S} ELSE {S2}\n'),
    ('gosub-next', 'GOSUB zl{n}\nGOTO zm{n}\nzl{n}: RETURN\nzm{n}:\n{X}'),
    ('two-labels', 'GOTO zm{n}\nzl{n}:\nzm{n}:\n{X}'),
    ('if-in-for', 'FOR zi{n}% = 1 TO 2\nIF {c} THEN\n{X}END IF\nNEXT\n'),
    ('if-in-if', 'IF zt% THEN\nIF {c} THEN\n{X}END IF\nEND IF\n'),
    ('if-in-else', 'IF zf% THEN\nELSE\nIF {c} THEN\n{X}ELSE\n{Y}END IF\nEND IF\n'),
    ('select-in-if', 'IF {c} THEN\nSELECT CASE zv%\nCASE 2\n{X}END SELECT\nEND IF\n'),
    ('if-in-case', 'SELECT CASE zv%\nCASE 2\nIF {c} THEN\n{X}END IF\nCASE ELSE\nEND SELECT\n'),
    ('do-in-if', 'IF {c} THEN\nDO\n{X}LOOP UNTIL zt%\nEND IF\n'),
    ('if-after-loop-end', 'FOR zi{n}% = 1 TO 2\nIF {c} THEN {S}\nNEXT\n'),
    # tail positions: a GOSUB or a call directly followed by the RETURN / END SUB of the routine it stands in
    ('gosub-tail', 'GOSUB zl{n}\nGOTO zm{n}\nzl{n}: GOSUB zk{n}\nRETURN\nzk{n}: {X}RETURN\nzm{n}:\n'),
    ('gosub-tail-twice', 'GOSUB zl{n}\nGOSUB zl{n}\nGOTO zm{n}\nzl{n}: {X}GOSUB zk{n}\nRETURN\nzk{n}: zq% = zq% + 1\nRETURN\nzm{n}: PRINT "q{n}"; zq%\n'),
    ('gosub-tail-if', 'GOSUB zl{n}\nGOTO zm{n}\nzl{n}: IF {c} THEN GOSUB zk{n}\nRETURN\nzk{n}: {X}RETURN\nzm{n}:\n'),
    ('gosub-subcall-tail', 'GOSUB zl{n}\nGOTO zm{n}\nzl{n}: {X}ztailp zq%, 2\nRETURN\nzm{n}: PRINT "q{n}"; zq%\n'),
    ('gosub-subcall-tail-byval', 'GOSUB zl{n}\nGOTO zm{n}\nzl{n}: {X}CALL ztailp((zq%), zv% + 1)\nRETURN\nzm{n}: PRINT "q{n}"; zq%\n'),
    ('gosub-funcall-tail', 'GOSUB zl{n}\nGOTO zm{n}\nzl{n}: {X}zq% = ztailf%(1) + zprobe%(2)\nRETURN\nzm{n}: PRINT "q{n}"; zq%\n'),
    ('gosub-subcall-tail-if', 'GOSUB zl{n}\nGOTO zm{n}\nzl{n}: IF {c} THEN ztailp zq%, 3\nRETURN\nzm{n}: PRINT "q{n}"; zq%\n'),
    ('sub-tail-call', 'ztail1\n{X}'),
    ('function-tail-call', 'zq% = ztailf%(2)\n{X}'),
    ('select-no-case', 'SELECT CASE zv%\nEND SELECT\n{X}'),
    ('select-no-case-expr', 'SELECT CASE zv% + 1\nEND SELECT\n{X}'),
]
# bodies that consist only of statements which generate no code
NOCODE = {'rem': 'REM nothing here\n', 'comment': "' nothing here\n", 'const': 'CONST zcc{n}{s} = 1\n', 'dim': 'DIM zdd{n}{s} AS LONG\n',
          'label': 'zll{n}{s}:\n', 'blank': '\n', 'colon': ':\n'}


def _fill(tmpl, n, c, slots):
    t = tmpl.replace('{c}', c.replace('{n}', str(n))).replace('{n}', str(n))
    for name, val in zip(('{X}', '{Y}', '{Z}'), slots):
        t = t.replace(name, val)
    t = t.replace('{X}', '').replace('{Y}', '').replace('{Z}', '')
    t = t.replace('{S2}', f'PRINT "e{n}"').replace('{S}', f'PRINT "t{n}"')
    return t


def constructs():
    """(tag, function n -> construct text)"""
    out = []
    for name, tmpl in TEMPLATES:
        nslots = sum(1 for s in ('{X}', '{Y}', '{Z}') if s in tmpl)
        conds = list(CONDS) if '{c}' in tmpl else ['-']
        for ck in conds:
            for fill in itertools.product((0, 1), repeat=nslots):
                def mk(n, tmpl=tmpl, ck=ck, fill=fill):
                    slots = [f'PRINT "b{n}{"xyz"[i]}"\n' if f else '' for i, f in enumerate(fill)]
                    return _fill(tmpl, n, CONDS.get(ck, ''), slots)
                out.append((f'{name}|{ck}|{"".join(map(str, fill))}', mk))
        if nslots:
            for ck in [c_ for c_ in conds if c_ in ('vt', 'vf', '-')]:
                for nk, ntext in NOCODE.items():
                    def mk2(n, tmpl=tmpl, ck=ck, ntext=ntext, nslots=nslots):
                        slots = [ntext.replace('{n}', str(n)).replace('{s}', 'xyz'[i]) for i in range(nslots)]
                        return _fill(tmpl, n, CONDS.get(ck, ''), slots)
                    out.append((f'{name}|{ck}|{nk}', mk2))
    return out


PLACEMENTS = ('gosub', 'sub', 'function')
PROBE = ('FUNCTION zprobe% (n%)\nPRINT "probe"; n%\nzprobe% = n%\nEND FUNCTION\n'
         'SUB ztail1\nPRINT "t1"\nztail2\nztailp zq%, 1\nEND SUB\nSUB ztail2\nPRINT "t2"\nEND SUB\n'
         'SUB ztailp (a%, b%)\na% = a% + b%\nPRINT "tp"; a%\nEND SUB\n'
         'FUNCTION ztailf% (n%)\nIF n% > 0 THEN ztailf% = ztailf%(n% - 1) ELSE ztailf% = 5\nEND FUNCTION\n')


def program(mk, placement):
    head = ['DIM SHARED zt%, zf%, zv%, zq%, zs$, zh!', 'zt% = -1', 'zf% = 0', 'zv% = 2', 'zs$ = "b"', 'zh! = 0.5', 'PRINT "m0"']
    main = mk(1) + 'PRINT "m1"\nFOR zk% = 1 TO 3\n' + mk(2) + 'NEXT\nPRINT "m2"\n'
    if placement == 'gosub':
        rest = 'GOSUB zg\nPRINT "m3"\nGOSUB zg\nPRINT "m4"\nEND\nzg:\n' + mk(3) + 'RETURN\n' + PROBE
    elif placement == 'sub':
        rest = 'zsb\nPRINT "m3"\nzsb\nPRINT "m4"\nEND\nSUB zsb\n' + mk(3) + 'PRINT "s"\nEND SUB\n' + PROBE
    else:
        rest = 'PRINT zfn%\nPRINT "m3"; zfn% + zfn%\nEND\nFUNCTION zfn%\n' + mk(3) + 'zfn% = 7\nEND FUNCTION\n' + PROBE
    return '\n'.join(head) + '\n' + main + rest


_ALL = None


def programs():
    global _ALL
    if _ALL is None:
        _ALL = []
        for i, (tag, mk) in enumerate(constructs()):
            pl = PLACEMENTS[i % 3]
            _ALL.append((f'{tag}|{pl}', program(mk, pl)))
    return _ALL


def sample(n, seed, always_empty=True):
    """A seeded sample of n programs that always contains the all-empty fill of every template once."""
    import random
    allp = programs()
    r = random.Random(seed * 977 + 11)
    must = []
    seen = set()
    if always_empty:
        for tag, text in allp:
            name, ck, fill = tag.split('|')[:3]
            if set(fill) <= {'0'} and name not in seen and ck in ('vt', 'vf', '-', 'c1'):  # (other conditions come from the random part)
                seen.add(name)
                must.append((tag, text))
            elif name in ('gosub-tail', 'gosub-tail-twice', 'gosub-tail-if', 'sub-tail-call', 'function-tail-call', 'gosub-subcall-tail',
                          'gosub-subcall-tail-byval', 'gosub-funcall-tail', 'gosub-subcall-tail-if') and ck in ('vt', 'vf', '-') \
                    and (name, ck) not in seen:
                seen.add((name, ck))
                must.append((tag, text))
            elif set(fill) <= {'0'} and ck in ('fn', 'trap') and name in ('if', 'if-elseif', 'if-in-for', 'if-in-if', 'select-in-if',
                                                                           'do-in-if', 'if-goto-next', 'for-exit-if'):
                must.append((tag, text))      # empty branches under a condition whose evaluation is observable
    rest = [p for p in allp if p not in must]
    r.shuffle(rest)
    return (must + rest)[:max(n, len(must))]
