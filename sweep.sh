#!/bin/sh
# usage: ./sweep.sh <tier> <seeds...>   - runs every registered check; prints one line per run
tier=$1; shift
for seed in "$@"; do
  for c in C01 C02 C03 C04 C05 C06 C07 C08 C09 C10 C11 C12 C13 C14 C15 C16 C17 C18 C19 C20; do
    VERIF_SEED=$seed ./check $c --tier $tier > sweep_$c.$seed.$tier.out 2>&1
    rc=$?
    echo "SWEEP $c seed=$seed tier=$tier rc=$rc $(grep -c '^VIOLATION' sweep_$c.$seed.$tier.out) viol; $(tail -2 sweep_$c.$seed.$tier.out | head -1 | cut -c1-100)"
    grep 'sig=\|INCONCLUSIVE' sweep_$c.$seed.$tier.out | cut -c1-400 | head -12
  done
done
