/* Arena allocator for CPython that never returns memory to the kernel.
 *
 * Why: CPython 3.12 allocates its frame "data stack chunks" (16 KiB) and obmalloc arenas with
 * mmap/munmap.  pyparsing's deep recursion crosses chunk boundaries all the time (~14k
 * mmap/munmap pairs per second of compilation), and in this sandbox's VM those calls serialise
 * across processes, so 16 workers run no faster than one.  Caching freed blocks in a per-size
 * free list removes the system calls.  Purely a performance aid for the verification workers:
 * it changes nothing the checks observe.
 */
#define _GNU_SOURCE
#include <stddef.h>
#include <stdint.h>
#include <sys/mman.h>

typedef struct {
    void *ctx;
    void *(*alloc)(void *ctx, size_t size);
    void (*free)(void *ctx, void *ptr, size_t size);
} PyObjectArenaAllocator;

extern void PyObject_SetArenaAllocator(PyObjectArenaAllocator *allocator);

#define NCLASS 8
#define MAXCACHED 4096
static size_t class_size[NCLASS];
static void *cache[NCLASS][MAXCACHED];
static int ncached[NCLASS];
static int nclass = 0;

static int find_class(size_t size, int create)
{
    for (int i = 0; i < nclass; i++)
        if (class_size[i] == size)
            return i;
    if (create && nclass < NCLASS) {
        class_size[nclass] = size;
        ncached[nclass] = 0;
        return nclass++;
    }
    return -1;
}

static void *ac_alloc(void *ctx, size_t size)
{
    int c = find_class(size, 0);
    if (c >= 0 && ncached[c] > 0)
        return cache[c][--ncached[c]];
    void *p = mmap(NULL, size, PROT_READ | PROT_WRITE, MAP_PRIVATE | MAP_ANONYMOUS, -1, 0);
    if (p == MAP_FAILED)
        return NULL;
    return p;
}

static void ac_free(void *ctx, void *ptr, size_t size)
{
    int c = find_class(size, 1);
    if (c >= 0 && ncached[c] < MAXCACHED) {
        cache[c][ncached[c]++] = ptr;
        return;
    }
    munmap(ptr, size);
}

int arenacache_install(void)
{
    static PyObjectArenaAllocator a = {NULL, ac_alloc, ac_free};
    PyObject_SetArenaAllocator(&a);
    return 0;
}
