NOT_APPLICABLE = {}

register('C08', 'exploration',
         'Differential monitoring: every source is compiled with and without -g at O0..O2 and both modules are run on the same scripted inputs; acceptance, sections 1-3, device history (incl. typed PRINT arguments) and outcome must be equal. Holds on the executions observed (typed random programs, repo snippets, marker-sensitive shapes); nothing is claimed about programs not generated.',
         'Trusts the recording peripherals object and the print-argument decoder; RESUME-executing programs are exempt from history comparison as the property allows (observed at errres/errresn, not guessed).',
         'runtime differential monitoring (-g vs no -g) of device histories and module sections', 'DESIGN.md §4 C08')
