NOT_APPLICABLE = {
}

HELD = ('Holds on the executions observed by this run (counts in the evidence file); nothing is claimed about programs, '
        'inputs or histories that were not generated. Exit 2 (inconclusive) when a deciding monitor was never reached.')

register('C01', 'exploration',
         'History + executable model: typed random programs (IR) are rendered to QBASIC, compiled by the real compiler at the six '
         'configurations and run on the real VM with scripted peripherals; the device history (typed PRINT arguments decoded on '
         'the operand stack at `io terminal,print`, prompts, inputs, screen/sound/memory calls, RND/TIMER/INKEY consumption), the '
         'outcome (halt / trap class) and, with -g, the line of the failing statement are compared with a reference interpreter '
         '(RefQB) executing the same IR. ' + HELD,
         'Trusts RefQB for the generated subset (semantic grey zones are excluded from generation, DESIGN §6), the renderer and the '
         'recording peripherals object.',
         'runtime monitoring: device-boundary history checked against a reference interpreter', 'DESIGN.md §4 C01')
register('C02', 'exploration',
         'Three runtime monitors, one verdict: (1) level differential - every source compiled at levels 0,1,2,3 must agree on '
         'acceptance, device history, outcome and (with -g) trap line; (2) constant-expression grid - PRINT/CONST/nested wrappers of '
         'every operator x ordered operand type pair x boundary values, typed value or trap at O0 must be reproduced at O1..O3; (3) '
         'peephole windows - all instruction windows of length <=2 (quick) / <=3 (thorough) over the foldable alphabet, spliced into '
         'a compiled module and executed on the real CPU before and after QvmCode.optimize(), same stack (types+values), cells, '
         'trap. ' + HELD,
         'Level 0 is the reference behaviour. Windows whose unoptimised execution is itself a machine fault (ill-typed for the '
         'machine) are skipped and counted; integer ^ huge integer is excluded (the baseline would not terminate).',
         'runtime differential monitoring across optimisation levels + enumerated windows executed on the real CPU', 'DESIGN.md §4 C02')
register('C03', 'exploration',
         'Per-tick CPU monitor (subclassed QvmCpu + class-level cell hooks) on concrete runs of accepted programs: pc on an '
         'instruction start, every cell access inside its segment, cells keep one type, typed reads push their type, stack values '
         'fit their type, operand-stack depth at statement starts (-g) = entry depth + active GOSUBs, no machine-fault trap, no '
         'host exception; input scripts are re-drawn to see both outcomes of jz sites (reach is reported). ' + HELD,
         'Concrete runs only: the abstract-interpretation half of the quantifier is outside runtime monitoring (DESIGN §1.2); '
         'one-sided jz sites are reported in evidence.',
         'runtime invariant monitoring on a monitored CPU (invariant at a hook)', 'DESIGN.md §4 C03')
register('C04', 'exploration',
         'Sentinel histories: for enumerated declaration layouts (shape x scope x neighbours) every location gets a unique typed '
         'sentinel; reads (typed PRINT arguments) are compared with a store model of named locations - forward, reverse, '
         'interleaved orders, read-before-write next to live data, by-reference writes through call depth 1-4, expression '
         'arguments, recursion, second activation (fresh locals / persistent STATIC), SHARED from procedures - plus cell-level '
         'monitors (reads write nothing but the default at the cell read; cells keep their type). ' + HELD,
         'Arrays are kept to <=30 elements so that every element is written and read back.',
         'runtime monitoring: unique-value histories against a location store model + cell hooks', 'DESIGN.md §4 C04')
register('C05', 'fault_enumeration',
         'Fault enumeration at the compiler boundary: a catalogue of ~105 static-rule violations is injected one at a time at '
         'applicable sites (main, procedure body, nested block, one-line IF) of valid generated seeds; the exception type, .code and '
         '.loc_start raised by Compiler.compile() are observed at O0 and O2-g (all six configs on a rotating sixth) and compared with '
         'the rule category and the acceptable lines; the unfaulted seed must be accepted. ' + HELD,
         'Expected categories are the ones the repository documents (ErrorCode / SyntaxError); acceptable lines per DESIGN §4 C05.',
         'runtime observation of diagnostics under enumerated fault injection', 'DESIGN.md §4 C05')
register('C06', 'exploration',
         'Exception observer around Compiler.compile(), bytes(code) and str(code): token-level mutations of valid programs and repo '
         'snippets, a statement-form sweep (every statement keyword with missing/extra/wrongly-typed operands in main, SUB, block, '
         'one-line IF) and the unmutated programs, at rotating configurations; anything other than SyntaxError/CompileError with a '
         'position inside the text, or a compilation exceeding the termination guard twice, is a violation. ' + HELD,
         'Termination is judged by a 30 s then 90 s wall-clock guard per compilation.',
         'runtime monitoring of escaping exceptions under grammar-directed and mutation workloads', 'DESIGN.md §4 C06')
register('C07', 'exploration',
         'Exception observer around every QvmCpu.tick(); cause -> trap-class table for constructed failures (division by zero, '
         'overflow, subscript, illegal argument, device failure) x place x handler x -g; accepted mutants run for totality; real '
         'SIGINT delivered between ticks through the handler QvmCpu installed, at every boundary of programs <=300 ticks (sampled '
         'beyond), with a full state digest before the request and after the next tick. ' + HELD,
         'Device refusals are scripted through the peripherals object; runs are cut at a logical tick budget (reported, not a violation).',
         'runtime monitoring with fault-directed workloads and signal injection at every tick boundary', 'DESIGN.md §4 C07')
register('C08', 'exploration',
         'Differential monitoring: every source is compiled with and without -g at O0..O2 and both modules are run on the same '
         'scripted inputs; acceptance, sections 1-3, device history (incl. typed PRINT arguments) and outcome must be equal; '
         'RESUME-executing programs (observed at errres/errresn) are exempt from the history comparison as the property allows. ' + HELD,
         'Trusts the recording peripherals object and the print-argument decoder.',
         'runtime differential monitoring (-g vs no -g) of device histories and module sections', 'DESIGN.md §4 C08')
register('C09', 'exploration',
         'Cross-agreement of the artefacts of one compilation, observed at run time: loader round trip of literals/DATA/globals/code, '
         'independent linear decoder vs the CPU decoder vs the emitted instruction list, disassembly vs listing (mnemonics, '
         'immediates, label addresses, variable slots), jump/call/errhand targets on instruction starts, slot operands inside '
         'frame/global area, frame operands vs an independent size model; cp437 literal sweep, DATA layouts, size cliffs. ' + HELD,
         'The opcode table qvm/instrs.py is the ISA definition and is shared by the independent decoder.',
         'runtime structural monitoring of module artefacts (cross-checking decoders and listings)', 'DESIGN.md §4 C09')
register('C10', 'fault_enumeration',
         'Fault enumeration over planted failing statements (kind x error kind x expression depth x place x handler form x 1-3 '
         'failures in sequence x O0..O2 -g): the tag trace printed by the program is compared with a statement-level model of '
         'ON ERROR / RESUME / RESUME NEXT, ERR must be a function of and injective on the error kind, the stack-depth monitor checks '
         'that no partial results survive a resume, continuations (GOSUB/RETURN, CALL, second error, ON ERROR GOTO 0) must behave '
         'normally. ' + HELD,
         'For errors inside procedures only handler entry with the right ERR is demanded, as the property states; RESUME NEXT after '
         'an error in a block header is not generated.',
         'runtime monitoring of tag traces and stack depth under enumerated planted failures', 'DESIGN.md §4 C10')
register('C11', 'exploration',
         'Structural checker over module.debug_info against independently decoded instruction starts (boundaries, nesting, coverage '
         'of routine bodies, routine records = frame..ret, source extracts) plus a tag oracle (every PRINT / numeric assignment '
         'carries a unique LONG literal: the instruction holding tag t must be attributed to the line where t is written), '
         'find_stmt(pc) at every `io terminal,print` during execution and find_stmt(trapped_addr) for planted failures, at O0..O2. ' + HELD,
         'Module prologue, frame instructions and a routine\'s final ret may lie outside statement records.',
         'runtime structural monitoring of debug records with unique-tag attribution', 'DESIGN.md §4 C11')
register('C12', 'exploration',
         'Debugger driven through Cmd.onecmd with stdout capture: random command histories (<=40) and every sequence of length <=4 '
         '(quick) / <=5 (thorough) over {step,next,stepi,nexti,continue,break L,delbr L} on small programs; oracles: free run of the '
         'same module and script (history, outcome), unique PRINT tags (one simple statement per step; stop line = statement about to '
         'run), frame depth for next, an independent breakpoint-address model with arrival counts from the free-run pc trace, no '
         'activity after the program finished. ' + HELD,
         'A session is cut at a tick budget (inconclusive for that history).',
         'runtime monitoring of debugger sessions against the free run (bounded exhaustive command sequences)', 'DESIGN.md §4 C12')
register('C13', 'exploration',
         'Differential monitoring of the debugger evaluator against the program itself: at line breakpoints on probe statements '
         '`PRINT <e>` the driver asks `print <e>`, then steps and reads the typed value the program printed for the same <e>; '
         'probes in main and at call depth 1-3 over parameters, locals, STATIC, SHARED, consts, arrays, records; negative set must '
         'yield evaluation errors; a full machine-state digest before/after every print; also after the program finished. ' + HELD,
         'Float results are compared with relative tolerance 1e-6 (SINGLE) / 1e-12 (DOUBLE).',
         'runtime differential monitoring (debugger vs program) with state digests', 'DESIGN.md §4 C13')
register('C14', 'exploration',
         'Differential monitoring under behaviour-neutral rewrites: each source and its rewritten variants (letter case, blanks/tabs, '
         'comments, blank lines, colon joining, LET, CALL form, NEXT variable, <> vs ><, label/line-number renaming) must agree on '
         'acceptance and on sections 1-4, or else on device history and outcome. ' + HELD,
         'Rewrites are applied by the IR renderer (generated programs) or a conservative text rewriter (repo snippets).',
         'runtime differential monitoring under metamorphic source rewrites', 'DESIGN.md §4 C14')
register('C15', 'exploration',
         'DATA texts over {a,1,blank,comma,quote,colon,dot} exhaustively up to length 5 (quick) / 6 (thorough), read back through '
         'compiled READs behind individual RESTORE labels and compared with a reference tokenizer written from the property text; '
         'random layouts of DATA statements x labels (with/without DATA, several per DATA, after the last DATA, after procedures) x '
         'READ/RESTORE sequences with targets of all five types against a cursor model, including exhaustion and conversion errors. ' + HELD,
         'The tokenizer oracle applies to well-formed items only; numeric conversion is demanded for plain integers and decimals.',
         'runtime monitoring of READ histories against a reference tokenizer and cursor model', 'DESIGN.md §4 C15')
register('C16', 'exploration',
         'All 65 536 INTEGER values and boundary/random LONG/SINGLE/DOUBLE values are pushed through compiled PRINT, STR$, VAL, READ '
         'and INPUT; the texts are judged by exact decimal arithmetic (Fraction) on the bit pattern: plain decimal form for integers, '
         '<=7/17 significant digits within half a unit of the last shown digit, same digits for PRINT/STR$ and for x/-x, read-back '
         'within one unit. ' + HELD,
         'Significant digits are counted from the first to the last non-zero digit shown.',
         'runtime monitoring of conversions with an exact-arithmetic oracle (INTEGER exhaustive)', 'DESIGN.md §4 C16')
register('C17', 'exploration',
         'Every valid PRINT token sequence of <=4 tokens (plus sampled longer ones) over an item alphabet with unambiguous number text '
         'is rendered as literals, variables, expressions/function results and inside SUB/loop/one-line IF; the text passed to '
         'terminal_print is compared with a reference layout function (zones of 14, separators, line ends). ' + HELD,
         'Number text of the alphabet values is beyond doubt; C16 judges number text in general.',
         'runtime monitoring of terminal output against a reference layout model', 'DESIGN.md §4 C17')
register('C18', 'exploration',
         'INPUT statements (1-4 variables, all types, scalar/element/field/by-ref parameter targets, three prompt forms) x response '
         'histories of 1-5 lines drawn from valid/invalid classes followed by a continuation; the prompt/redo conversation, a cell '
         'digest at every re-prompt, the typed values afterwards, the outcome and the final stack are compared with a reference '
         'INPUT model. ' + HELD,
         'Fractional text for integer variables, empty numeric fields and quoted fields are not generated (property silent).',
         'runtime monitoring of the INPUT conversation and memory digests against a reference model', 'DESIGN.md §4 C18')
register('C19', 'exploration',
         'Format strings over {#,.,comma,+,-,&,!,_,x,blank} exhaustively up to length 4 (quick) / 5 (thorough) plus sampled longer '
         'ones, with boundary values per field; the text passed to terminal_print is matched field by field against an independent '
         'reference formatter on Decimal(value) that accepts both tie-breaking rules and both treatments of a leading zero that does '
         'not fit. ' + HELD,
         'Ambiguous formats (sign directly before a field that is not a trailing sign, dangling comma, trailing underscore, format '
         'reuse) are not judged.',
         'runtime monitoring of PRINT USING output against an independent reference formatter', 'DESIGN.md §4 C19')
register('C20', 'exploration',
         'Each batch of sources is compiled and run in fresh child processes under PYTHONHASHSEED 0/1/2/random, from another working '
         'directory, under three fake clocks, and in a reused process after a history of other (also failing) compilations and twice '
         'in a row; sha256 of sections 1-4, of the listing, of the device trace, the outcome and the tick count must be identical '
         'everywhere; an audit hook records file/socket/process events on the compile/run path. ' + HELD,
         'Section 5 (gzip+pickle) is excluded as the property states; clock independence is tested with patched time/datetime.',
         'runtime differential monitoring across processes, hash seeds, clocks and compilation histories', 'DESIGN.md §4 C20')

# additions of session 3 (DESIGN §10), appended to the descriptions above
ADDENDA = {
    'C01': 'Also: parentheses that operator precedence makes redundant are dropped in the rendered text (the IR tree stays the oracle); '
           'flat precedence programs over every ordered pair of binary operators; unit programs with literal operands; keyword-prefixed '
           'identifiers in every statement position; locals of different routines share their names in half of the programs.',
    'C02': 'Also: static array bounds from the listing against LBOUND/UBOUND at run time over fractional constant bounds; builtin calls '
           'with constant arguments and cp437 strings in the grid; degenerate control-flow shapes with and without -g.',
    'C03': 'Also: near-miss argument-passing programs (run whenever the compiler accepts them) and the degenerate control-flow shapes at '
           'all six configurations.',
    'C05': 'Also: faulty expressions embedded in larger expressions/statements, rank errors on arrays with run-time bounds, and the '
           'near-miss by-reference argument family (388 programs, the well-typed ones are controls).',
    'C06': 'Also: namespace family (one base name declared as one kind of thing and used as another, 25 608 texts), numeric literal x '
           'context sweep at all six configurations, non-cp437 and control characters.',
    'C07': 'Also: extreme-argument family - every run-time library entry x boundary numbers and absurd strings, under a RESUME NEXT '
           'handler and bare.',
    'C08': 'Also: handlers that never resume, special characters inside literals/DATA, degenerate control-flow shapes.',
    'C09': 'Also: global operands are resolved through the .globals order and the size model (STATIC names per routine).',
    'C10': 'Also: directed programs (line 0 + ON ERROR GOTO 0, RESUME NEXT inside single-line IFs, errors inside GOSUB routines).',
    'C11': 'Also: degenerate control-flow shapes including bodies of no-code statements; characters other line splitters take for line ends.',
    'C12': 'Also: a third of the histories each with the status display off / source context / instruction context, informational commands, '
           'routine and address breakpoints, and a step-coverage oracle over every tagged statement.',
    'C13': 'Also: unit programs over every operator x operand-type pair with value pairs that differ between operand types.',
    'C14': 'Also: statement-level rewrites on plain text (split, join, LET) for tour, repository and shape programs.',
    'C15': 'Also: RESTORE to a procedure-local label, line number 0.',
    'C16': 'Also: constant forms (VAL of a literal text, STR$/PRINT of literals) at O0/O2/O1-g and re-reading after an integer READ.',
    'C19': 'Also: every statement preceded by a failing one with the same format in a sixth of the batches.',
    'C20': 'Also: families of programs that use the same names in different roles.',
}
for _pid, _add in ADDENDA.items():
    CHECKS[_pid]['text'] = CHECKS[_pid]['text'].replace(HELD, _add + ' ' + HELD)
